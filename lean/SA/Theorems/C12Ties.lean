/-
C12 — the order inside a block of tied scores is irrelevant.

`GroupScores.__init__` sorts scores and labels jointly with `np.argsort` (group_scores.py:101-108),
which is NOT stable: inside a block of equal scores the labels may come out in any order.  The model
(SA/Model/Group.lean) sorts stably with `List.mergeSort`.  This file proves that the difference
cannot be observed through anything C12 talks about.

* `c12_Admissible l l'`: `l'` is an admissible joint order of the input pairs `l` — a permutation
  of the pairs (every score keeps its label) that is sorted by score.  Whatever `argsort` does, its
  output is admissible (this is `C12_sort_perm`'s statement; the harness checks it on the real arrays).
* `c12_TieEq g g'`: two objects holding admissible orders of the same data, same flags, same group
  list.
* `c12_ObsEq g g'`: every observable of C12 agrees — the score arrays, the group list, the flags,
  `gs[grp]` (as LISTS, not multisets), `group_cm`, every `group_<rate>`, `cm`, `groupwise(metric)` for
  any metric, and the outputs of any history of queries through the cache.
* `C12_tie_order_irrelevant`: `c12_TieEq g g'` implies `c12_ObsEq g g'`, the same for `swap()`, and for
  sampling: the requests / RNG states are identical, by_group sampling returns the very same object,
  and without group stratification the sample of `g'` is (an admissible order of) the sample of `g`
  for the draws re-indexed by a permutation of the index range that maps every tied block to itself
  — the natural re-indexing; the sampled score arrays are identical.
-/
import SA.Theorems.C12

namespace SA

/-! ### admissible joint orders -/

/-- `l'` is an admissible result of the joint argsort of the pairs `l`: the same multiset of
`(score, label)` pairs, non-decreasing in the score. -/
def c12_Admissible (l l' : List (Rat × Nat)) : Prop :=
  l'.Perm l ∧ l'.Pairwise (fun a b => a.1 ≤ b.1)

/-- the model's stable sort is one of them -/
theorem c12_sortPairs_admissible (l : List (Rat × Nat)) : c12_Admissible l (c12_sortPairs l) :=
  ⟨c12_sortPairs_perm l, c12_sortPairs_sorted l⟩

/-- an already sorted input is admissible as it is (`is_sorted=True`) -/
theorem c12_admissible_self (l : List (Rat × Nat)) (h : l.Pairwise (fun a b => a.1 ≤ b.1)) :
    c12_Admissible l l := ⟨List.Perm.refl _, h⟩

/-- two admissible orders hold the same score array -/
theorem c12_ties_scores {l₁ l₂ : List (Rat × Nat)} (hp : l₁.Perm l₂)
    (h₁ : l₁.Pairwise (fun a b => a.1 ≤ b.1)) (h₂ : l₂.Pairwise (fun a b => a.1 ≤ b.1)) :
    l₁.map (·.1) = l₂.map (·.1) :=
  List.Perm.eq_of_pairwise (le := (· ≤ ·)) (fun _ _ _ _ hab hba => Rat.le_antisymm hab hba)
    ((c12_sorted_iff l₁).mp h₁) ((c12_sorted_iff l₂).mp h₂) (hp.map _)

/-- … and the same scores under every label, AS LISTS -/
theorem c12_ties_filterGroup {l₁ l₂ : List (Rat × Nat)} (hp : l₁.Perm l₂)
    (h₁ : l₁.Pairwise (fun a b => a.1 ≤ b.1)) (h₂ : l₂.Pairwise (fun a b => a.1 ≤ b.1))
    (grp : Nat) : c12_filterGroup l₁ grp = c12_filterGroup l₂ grp :=
  List.Perm.eq_of_pairwise (le := (· ≤ ·)) (fun _ _ _ _ hab hba => Rat.le_antisymm hab hba)
    (c12_filterGroup_sorted h₁ grp) (c12_filterGroup_sorted h₂ grp)
    ((hp.filter _).map _)

/-- two objects holding admissible orders of the same data -/
structure c12_TieEq (g g' : GScores) : Prop where
  pos : g'.pos.Perm g.pos
  neg : g'.neg.Perm g.neg
  inv : GInv g
  inv' : GInv g'
  cfg : g'.cfg = g.cfg
  groups : g'.groups = g.groups

theorem c12_TieEq.refl {g : GScores} (h : GInv g) : c12_TieEq g g :=
  ⟨List.Perm.refl _, List.Perm.refl _, h, h, rfl, rfl⟩

theorem c12_TieEq.symm {g g' : GScores} (h : c12_TieEq g g') : c12_TieEq g' g :=
  ⟨h.pos.symm, h.neg.symm, h.inv', h.inv, h.cfg.symm, h.groups.symm⟩

theorem c12_TieEq.trans {g₁ g₂ g₃ : GScores} (h : c12_TieEq g₁ g₂) (h' : c12_TieEq g₂ g₃) :
    c12_TieEq g₁ g₃ :=
  ⟨h'.pos.trans h.pos, h'.neg.trans h.neg, h.inv, h'.inv', h'.cfg.trans h.cfg,
    h'.groups.trans h.groups⟩

/-- any object whose arrays are admissible orders of the constructor's input is tie-equivalent to
the model's object -/
theorem c12_tieEq_of_admissible (pos neg : List (Rat × Nat)) (cfg : Cfg) (gn : Option (List Nat))
    (g' : GScores) (hp : c12_Admissible pos g'.pos) (hn : c12_Admissible neg g'.neg)
    (hc : g'.cfg = cfg) (hg : g'.groups = (GScores.make pos neg cfg gn false).groups) :
    c12_TieEq (GScores.make pos neg cfg gn false) g' := by
  have hm := c12_make_perm pos neg cfg gn false
  exact ⟨hp.1.trans hm.1.symm, hn.1.trans hm.2.symm,
    c12_make_inv pos neg cfg gn false (fun h => absurd h (by simp)), ⟨hp.2, hn.2⟩,
    hc.trans (c12_make_cfg pos neg cfg gn false).symm, hg⟩

/-! ### the observables -/

/-- every observable C12 names agrees on the two objects -/
structure c12_ObsEq (g g' : GScores) : Prop where
  /-- the inherited `pos` / `neg` score arrays, easy counts and flags -/
  scores : g'.toScores = g.toScores
  groups : g'.groups = g.groups
  cfg : g'.cfg = g.cfg
  /-- `gs[grp]`: the same `Scores` object (arrays equal as lists), the same `ValueError` -/
  getItem : ∀ grp, g'.getItem grp = g.getItem grp
  /-- per-group confusion matrices at every threshold incl. ±inf -/
  groupCm : ∀ t, g'.groupCm t = g.groupCm t
  groupRate : ∀ n t, g'.groupRate n t = g.groupRate n t
  /-- the overall matrix -/
  overallCm : ∀ t, g'.overallCm t = g.overallCm t
  /-- `groupwise(metric)` for ANY metric of a `Scores` object -/
  groupwise : ∀ {α : Type} (m : Scores → α), g'.groupwise m = g.groupwise m
  /-- any history of queries through the cache -/
  history : ∀ qs, ((GState.fresh g').run qs).2 = ((GState.fresh g).run qs).2

theorem c12_tieEq_toScores {g g' : GScores} (h : c12_TieEq g g') : g'.toScores = g.toScores := by
  unfold GScores.toScores
  rw [c12_ties_scores h.pos h.inv'.1 h.inv.1, c12_ties_scores h.neg h.inv'.2 h.inv.2, h.cfg]

theorem c12_tieEq_groupScores {g g' : GScores} (h : c12_TieEq g g') (grp : Nat) :
    g'.groupScores grp = g.groupScores grp := by
  unfold GScores.groupScores
  rw [c12_ties_filterGroup h.pos h.inv'.1 h.inv.1, c12_ties_filterGroup h.neg h.inv'.2 h.inv.2,
    h.cfg]

theorem c12_tieEq_obs {g g' : GScores} (h : c12_TieEq g g') : c12_ObsEq g g' := by
  have hs := c12_tieEq_toScores h
  have hg := c12_tieEq_groupScores h
  have hgetItem : ∀ grp, g'.getItem grp = g.getItem grp := fun grp => by
    unfold GScores.getItem; rw [h.groups, hg]
  have hgroupCm : ∀ t, g'.groupCm t = g.groupCm t := fun t => by
    unfold GScores.groupCm; rw [h.groups]
    exact List.map_congr_left (fun grp _ => by rw [hg])
  have hrate : ∀ n t, g'.groupRate n t = g.groupRate n t := fun n t => by
    unfold GScores.groupRate; rw [hgroupCm]
  have hover : ∀ t, g'.overallCm t = g.overallCm t := fun t => by
    unfold GScores.overallCm; rw [hs]
  have hans : ∀ q, g'.answer q = g.answer q := fun q => by
    cases q with
    | getItem grp => simp only [GScores.answer, hgetItem]
    | groupCm t => simp only [GScores.answer, hgroupCm]
    | groupRate n t => simp only [GScores.answer, hrate]
    | overallCm t => simp only [GScores.answer, hover]
  refine ⟨hs, h.groups, h.cfg, hgetItem, hgroupCm, hrate, hover, ?_, ?_⟩
  · intro α m
    unfold GScores.groupwise; rw [h.groups]
    exact List.map_congr_left (fun grp _ => by rw [hg])
  · intro qs
    rw [C12_cache_fresh, C12_cache_fresh]
    exact List.map_congr_left (fun q _ => hans q)

/-- `swap()` of tie-equivalent objects is tie-equivalent (the default group list the swapped object
computes from its arrays is a function of the multiset of labels) -/
theorem c12_tieEq_swap {g g' : GScores} (h : c12_TieEq g g') : c12_TieEq g.swap g'.swap :=
  ⟨h.neg, h.pos, ⟨h.inv.2, h.inv.1⟩, ⟨h.inv'.2, h.inv'.1⟩, by
    show g'.cfg.swap = g.cfg.swap
    rw [h.cfg], by
    show c12_defaultGroups g'.neg g'.pos = c12_defaultGroups g.neg g.pos
    exact c12_defaultGroups_perm h.neg h.pos⟩

/-! ### re-indexing: a permutation of lists is a permutation of positions -/

theorem c12_map_getD_range {α : Type} (d : α) (l : List α) :
    (List.range l.length).map (fun i => l.getD i d) = l := by
  apply List.ext_getElem
  · simp
  · intro i h1 h2
    simp only [List.getElem_map, List.getElem_range, List.getD_eq_getElem?_getD,
      List.getElem?_eq_getElem h2, Option.getD_some]

theorem c12_getD_map_lt {α β : Type} (f : α → β) (l : List α) (i : Nat) (h : i < l.length)
    (d : α) (d' : β) : (l.map f).getD i d' = f (l.getD i d) := by
  simp only [List.getD_eq_getElem?_getD, List.getElem?_map, List.getElem?_eq_getElem h,
    Option.map_some, Option.getD_some]

/-- a permutation `l'` of `l` reads `l` through a permutation `σ` of the positions -/
theorem c12_perm_reindex {α : Type} (d : α) {l' l : List α} (h : l'.Perm l) :
    ∃ σ : List Nat, σ.Perm (List.range l.length) ∧ l' = σ.map (fun i => l.getD i d) := by
  induction h with
  | nil => exact ⟨[], List.Perm.refl _, rfl⟩
  | @cons x l₁ l₂ _ ih =>
    obtain ⟨σ, hσ, he⟩ := ih
    refine ⟨0 :: σ.map Nat.succ, ?_, ?_⟩
    · rw [List.length_cons, List.range_succ_eq_map]
      exact List.Perm.cons 0 (hσ.map _)
    · rw [List.map_cons, List.map_map]
      simp only [List.getD_cons_zero, Function.comp_def, Nat.succ_eq_add_one, List.getD_cons_succ]
      rw [← he]
  | swap x y l =>
    refine ⟨1 :: 0 :: (List.range l.length).map (fun i => i + 2), ?_, ?_⟩
    · rw [List.length_cons, List.length_cons, List.range_succ_eq_map, List.range_succ_eq_map,
        List.map_cons, List.map_map]
      exact List.Perm.swap _ _ _
    · simp only [List.map_cons, List.map_map, Function.comp_def, List.getD_cons_zero,
        List.getD_cons_succ]
      rw [c12_map_getD_range]
  | @trans l₁ l₂ l₃ _ _ ih₁ ih₂ =>
    obtain ⟨σ₁, hσ₁, he₁⟩ := ih₁
    obtain ⟨σ₂, hσ₂, he₂⟩ := ih₂
    have hlen : l₂.length = σ₂.length := by rw [he₂, List.length_map]
    refine ⟨σ₁.map (fun i => σ₂.getD i 0), ?_, ?_⟩
    · refine (hσ₁.map _).trans ?_
      rw [hlen, c12_map_getD_range]
      exact hσ₂
    · rw [he₁, List.map_map]
      apply List.map_congr_left
      intro i hi
      have hi' : i < σ₂.length := by
        have := hσ₁.mem_iff.mp hi
        rw [List.mem_range, hlen] at this
        exact this
      show l₂.getD i d = l₃.getD (σ₂.getD i 0) d
      conv_lhs => rw [he₂]
      exact c12_getD_map_lt _ σ₂ i hi' 0 d

/-- `σ` re-indexes `l` into `l'`: it permutes the index range, `l'[i] = l[σ i]`, and it maps every
block of tied scores to itself (`l[σ i]` has the score of `l[i]`). -/
structure c12_Reindex (l l' : List (Rat × Nat)) (σ : Nat → Nat) : Prop where
  perm : ((List.range l.length).map σ).Perm (List.range l.length)
  lt : ∀ i, i < l.length → σ i < l.length
  get : ∀ i, i < l.length → l'.getD i (0, 0) = l.getD (σ i) (0, 0)
  score : ∀ i, i < l.length → (l.getD (σ i) (0, 0)).1 = (l.getD i (0, 0)).1

/-- two admissible orders are related by a re-indexing -/
theorem c12_reindex_exists {l l' : List (Rat × Nat)} (hp : l'.Perm l)
    (h : l.Pairwise (fun a b => a.1 ≤ b.1)) (h' : l'.Pairwise (fun a b => a.1 ≤ b.1)) :
    ∃ σ, c12_Reindex l l' σ := by
  obtain ⟨σ, hσ, he⟩ := c12_perm_reindex ((0, 0) : Rat × Nat) hp
  have hlen : σ.length = l.length := by rw [hσ.length_eq, List.length_range]
  have hget : ∀ i, i < l.length → l'.getD i (0, 0) = l.getD (σ.getD i 0) (0, 0) := by
    intro i hi
    conv_lhs => rw [he]
    exact c12_getD_map_lt _ σ i (hlen ▸ hi) 0 _
  have hsc := c12_ties_scores hp h' h
  refine ⟨fun i => σ.getD i 0, ?_, ?_, hget, ?_⟩
  · rw [← hlen, c12_map_getD_range, hlen]; exact hσ
  · intro i hi
    have : σ.getD i 0 ∈ σ := by
      rw [List.getD_eq_getElem?_getD, List.getElem?_eq_getElem (hlen ▸ hi), Option.getD_some]
      exact List.getElem_mem _
    exact List.mem_range.mp (hσ.mem_iff.mp this)
  · intro i hi
    rw [← hget i hi]
    have hi' : i < l'.length := by rw [hp.length_eq]; exact hi
    have e1 : (l'.getD i (0, 0)).1 = (l'.map (·.1)).getD i 0 :=
      (c12_getD_map_lt (·.1) l' i hi' (0, 0) 0).symm
    have e2 : (l.getD i (0, 0)).1 = (l.map (·.1)).getD i 0 :=
      (c12_getD_map_lt (·.1) l i hi (0, 0) 0).symm
    rw [e1, e2, hsc]

theorem c12_gatherPairs_getD (a : List (Rat × Nat)) (idx : List Nat)
    (hi : ∀ i ∈ idx, i < a.length) :
    c12_gatherPairs a idx = idx.map (fun i => a.getD i (0, 0)) := by
  rw [c12_gatherPairs_eq]
  apply List.map_congr_left
  intro i h
  rw [c12_getD_pair a i (hi i h), List.getD_eq_getElem?_getD, List.getElem?_eq_getElem (hi i h),
    Option.getD_some]

/-- fancy indexing of the order `l'` by `idx` = fancy indexing of the order `l` by the re-indexed
draws; the gathered score arrays are identical -/
theorem c12_gather_reindex {l l' : List (Rat × Nat)} {σ : Nat → Nat} (h : c12_Reindex l l' σ)
    (hlen : l'.length = l.length) (idx : List Nat) (hi : ∀ i ∈ idx, i < l.length) :
    c12_gatherPairs l' idx = c12_gatherPairs l (idx.map σ) ∧
    (∀ i ∈ idx.map σ, i < l.length) ∧
    (c12_gatherPairs l' idx).map (·.1) = (c12_gatherPairs l idx).map (·.1) := by
  have hi' : ∀ i ∈ idx.map σ, i < l.length := by
    intro i him
    obtain ⟨j, hj, rfl⟩ := List.mem_map.mp him
    exact h.lt j (hi j hj)
  have e : c12_gatherPairs l' idx = c12_gatherPairs l (idx.map σ) := by
    rw [c12_gatherPairs_getD l' idx (fun i h' => hlen ▸ hi i h'),
      c12_gatherPairs_getD l (idx.map σ) hi', List.map_map]
    exact List.map_congr_left (fun i h' => h.get i (hi i h'))
  refine ⟨e, hi', ?_⟩
  rw [e, c12_gatherPairs_getD l (idx.map σ) hi', c12_gatherPairs_getD l idx hi, List.map_map,
    List.map_map, List.map_map]
  exact List.map_congr_left (fun i h' => h.score i (hi i h'))

/-! ### sampling -/

theorem c12_tieEq_byGroupLoop {g g' : GScores} (h : c12_TieEq g g') (sp : Bool) (grps : List Nat)
    (st : RngState) : c12_byGroupLoop g' sp grps st = c12_byGroupLoop g sp grps st := by
  induction grps generalizing st with
  | nil => rfl
  | cons grp rest ih =>
    simp only [c12_byGroupLoop, c12_tieEq_groupScores h grp, ih]

theorem c12_tieEq_samplingMethod {g g' : GScores} (h : c12_TieEq g g') (c : GBootCfg) :
    g'.samplingMethod c = g.samplingMethod c := by
  unfold GScores.samplingMethod
  rw [h.pos.length_eq, h.neg.length_eq]

/-- by_group stratification samples the per-group objects, which are identical: the very same
result and RNG state -/
theorem c12_tieEq_resample_byGroup {g g' : GScores} (h : c12_TieEq g g') (sp : Bool)
    (st : RngState) : g'.resample .byGroup sp st = g.resample .byGroup sp st := by
  simp only [GScores.resample, c12_tieEq_byGroupLoop h, h.groups, h.cfg]

/-- without group stratification: the index lists are drawn from the score arrays alone -/
theorem c12_tieEq_resample_idx {g g' : GScores} (h : c12_TieEq g g') (strat : Strat)
    (hs : strat = .none ∨ strat = .byLabel) (sp : Bool) (st : RngState) :
    g'.resample strat sp st =
      (.ok (GScores.make
        (c12_gatherPairs g'.pos (sampleIndices g.toScores (strat == .byLabel) sp st).1.idxPos)
        (c12_gatherPairs g'.neg (sampleIndices g.toScores (strat == .byLabel) sp st).1.idxNeg)
        g.cfg (some g.groups) sp), (sampleIndices g.toScores (strat == .byLabel) sp st).2) := by
  rcases hs with rfl | rfl <;>
    simp only [GScores.resample, c12_tieEq_toScores h, h.groups, h.cfg]

/-- the RNG state after `bootstrap_sample` (requests issued, answers consumed, `ok` flag) does not
depend on the order inside tied blocks, and neither does an error -/
theorem c12_tieEq_sample_state {g g' : GScores} (h : c12_TieEq g g') (c : GBootCfg)
    (st : RngState) :
    (g'.bootstrapSample c st).2 = (g.bootstrapSample c st).2 ∧
    (∀ e, (g'.bootstrapSample c st).1 = .error e ↔ (g.bootstrapSample c st).1 = .error e) ∧
    (c.strat = .byGroup → g'.bootstrapSample c st = g.bootstrapSample c st) := by
  have key : ∀ sp, (g'.resample c.strat sp st).2 = (g.resample c.strat sp st).2 ∧
      (∀ e, (g'.resample c.strat sp st).1 = .error e ↔ (g.resample c.strat sp st).1 = .error e) ∧
      (c.strat = .byGroup → g'.resample c.strat sp st = g.resample c.strat sp st) := by
    intro sp
    cases hst : c.strat with
    | none =>
      rw [c12_tieEq_resample_idx h _ (Or.inl rfl),
        c12_tieEq_resample_idx (c12_TieEq.refl h.inv) _ (Or.inl rfl)]
      exact ⟨rfl, fun e => by simp, fun hh => absurd hh (by simp)⟩
    | byLabel =>
      rw [c12_tieEq_resample_idx h _ (Or.inr rfl),
        c12_tieEq_resample_idx (c12_TieEq.refl h.inv) _ (Or.inr rfl)]
      exact ⟨rfl, fun e => by simp, fun hh => absurd hh (by simp)⟩
    | byGroup =>
      rw [c12_tieEq_resample_byGroup h]
      exact ⟨rfl, fun e => Iff.rfl, fun _ => rfl⟩
    | unknown => exact ⟨rfl, fun e => Iff.rfl, fun hh => absurd hh (by simp)⟩
  unfold GScores.bootstrapSample
  rw [c12_tieEq_samplingMethod h]
  by_cases hsm : c.smoothing = true
  · rw [if_pos hsm, if_pos hsm]
    exact ⟨rfl, fun e => Iff.rfl, fun _ => rfl⟩
  · rw [if_neg hsm, if_neg hsm]
    cases g.samplingMethod c with
    | replacement => exact key false
    | singlePass => exact key true
    | proportion => exact ⟨rfl, fun e => Iff.rfl, fun _ => rfl⟩
    | unknown => exact ⟨rfl, fun e => Iff.rfl, fun _ => rfl⟩
    | dynamic => exact ⟨rfl, fun e => Iff.rfl, fun _ => rfl⟩

/-- **Sampling under a different tie order.**  `σp`, `σn` re-index the positive / negative arrays
of `g` into those of `g'`.  On every in-support run that returns a sample `out` from `g`, the same
script makes `g'` return a sample `out'` with the same requests and RNG state, the same score
arrays, group list and flags; with by_group stratification `out' = out`; otherwise `out` holds the
pairs `g.pos[idxP]`, `g.neg[idxN]` for in-range index lists (the draws) and `out'` is an admissible
order of what the model builds from `g` for the RE-INDEXED draws `σp(idxP)`, `σn(idxN)` — hence the
same multiset of `(score, label)` pairs as that draw, and all observables of `out'` are those of
that sample of `g` (`c12_tieEq_obs`). -/
theorem c12_tieEq_sample {g g' : GScores} (h : c12_TieEq g g') {σp σn : Nat → Nat}
    (hσp : c12_Reindex g.pos g'.pos σp) (hσn : c12_Reindex g.neg g'.neg σn)
    (c : GBootCfg) (script : List (List Nat)) (out : GScores) (hr : GRun g c script out) :
    ∃ out', GRun g' c script out' ∧
      (g'.runSample c script).2 = (g.runSample c script).2 ∧
      out'.toScores = out.toScores ∧ out'.groups = out.groups ∧ out'.cfg = out.cfg ∧
      (c.strat = .byGroup → out' = out) ∧
      (c.strat ≠ .byGroup → ∃ idxP idxN : List Nat,
        (∀ i ∈ idxP, i < g.pos.length) ∧ (∀ i ∈ idxN, i < g.neg.length) ∧
        out.pos.Perm (c12_gatherPairs g.pos idxP) ∧ out.neg.Perm (c12_gatherPairs g.neg idxN) ∧
        out'.pos.Perm (c12_gatherPairs g.pos (idxP.map σp)) ∧
        out'.neg.Perm (c12_gatherPairs g.neg (idxN.map σn)) ∧
        c12_TieEq (GScores.make (c12_gatherPairs g.pos (idxP.map σp))
          (c12_gatherPairs g.neg (idxN.map σn)) g.cfg (some g.groups) false) out') := by
  obtain ⟨hst, _, hby⟩ := c12_tieEq_sample_state h c (RngState.init script)
  have hinv := C12_sample_inv g h.inv c script out hr
  by_cases hbg : c.strat = .byGroup
  · have e := hby hbg
    refine ⟨out, ?_, hst, rfl, rfl, rfl, fun _ => rfl, fun hh => absurd hbg hh⟩
    unfold GRun GScores.runSample
    rw [e]; exact hr
  · obtain ⟨hsm, sp, hsp, hcase⟩ := c12_bootstrap_cases g c script out hr
    rcases hcase with ⟨hs, -⟩ | ⟨hs, -⟩
    swap
    · exact absurd hs hbg
    -- what both runs compute
    have hres := c12_tieEq_resample_idx h c.strat hs sp (RngState.init script)
    have hres0 := c12_tieEq_resample_idx (c12_TieEq.refl h.inv) c.strat hs sp (RngState.init script)
    have hrun : ∀ gg : GScores, gg.samplingMethod c = g.samplingMethod c →
        gg.runSample c script = gg.resample c.strat sp (RngState.init script) := by
      intro gg hgg
      unfold GScores.runSample GScores.bootstrapSample
      rw [hgg]
      simp only [hsm, Bool.false_eq_true, if_false]
      rcases hsp with ⟨hm, rfl⟩ | ⟨hm, rfl⟩ <;> simp only [hm]
    have hrun' := hrun g' (c12_tieEq_samplingMethod h c)
    have hrun0 := hrun g rfl
    set r := sampleIndices g.toScores (c.strat == .byLabel) sp (RngState.init script) with hrdef
    have hok : r.2.ok = true := by
      have := hr.2
      rw [hrun0, hres0] at this
      exact this
    have facts : IndexFacts g.toScores (c.strat == .byLabel) sp r.1 :=
      (sampleIndices_spec g.toScores _ sp _ hok).2
    have hpr : ∀ i ∈ r.1.idxPos, i < g.pos.length := fun i hi => by
      simpa [GScores.toScores] using facts.posRange i hi
    have hnr : ∀ i ∈ r.1.idxNeg, i < g.neg.length := fun i hi => by
      simpa [GScores.toScores] using facts.negRange i hi
    have hout : out = GScores.make (c12_gatherPairs g.pos r.1.idxPos)
        (c12_gatherPairs g.neg r.1.idxNeg) g.cfg (some g.groups) sp := by
      have := hr.1
      rw [hrun0, hres0] at this
      injection this with this
      exact this.symm
    obtain ⟨gp, hpr', gps⟩ := c12_gather_reindex hσp h.pos.length_eq r.1.idxPos hpr
    obtain ⟨gn, hnr', gns⟩ := c12_gather_reindex hσn h.neg.length_eq r.1.idxNeg hnr
    let out' := GScores.make (c12_gatherPairs g'.pos r.1.idxPos)
        (c12_gatherPairs g'.neg r.1.idxNeg) g.cfg (some g.groups) sp
    have hrun'' : g'.runSample c script = (.ok out', r.2) := by rw [hrun', hres]
    have hgrun' : GRun g' c script out' := by
      unfold GRun; rw [hrun'']; exact ⟨rfl, hok⟩
    have hinv' := C12_sample_inv g' h.inv' c script out' hgrun'
    have hperm := c12_make_perm (c12_gatherPairs g.pos r.1.idxPos)
        (c12_gatherPairs g.neg r.1.idxNeg) g.cfg (some g.groups) sp
    have hperm' := c12_make_perm (c12_gatherPairs g'.pos r.1.idxPos)
        (c12_gatherPairs g'.neg r.1.idxNeg) g.cfg (some g.groups) sp
    have hpermσ := c12_make_perm (c12_gatherPairs g.pos (r.1.idxPos.map σp))
        (c12_gatherPairs g.neg (r.1.idxNeg.map σn)) g.cfg (some g.groups) false
    have hgroups : out'.groups = out.groups := by
      rw [hout]; exact (c12_make_groups_some _ _ _ _ _).trans (c12_make_groups_some _ _ _ _ _).symm
    have hcfg : out'.cfg = out.cfg := by
      rw [hout]; exact (c12_make_cfg _ _ _ _ _).trans (c12_make_cfg _ _ _ _ _).symm
    -- the score arrays: sorted lists with the same multiset of scores
    have hscore : out'.toScores = out.toScores := by
      have hpp : (out'.pos.map (·.1)).Perm (out.pos.map (·.1)) := by
        rw [hout]
        refine (hperm'.1.map _).trans (List.Perm.trans ?_ (hperm.1.map _).symm)
        rw [gps]
      have hnn : (out'.neg.map (·.1)).Perm (out.neg.map (·.1)) := by
        rw [hout]
        refine (hperm'.2.map _).trans (List.Perm.trans ?_ (hperm.2.map _).symm)
        rw [gns]
      have ep : out'.pos.map (·.1) = out.pos.map (·.1) :=
        List.Perm.eq_of_pairwise (le := (· ≤ ·)) (fun _ _ _ _ hab hba => Rat.le_antisymm hab hba)
          ((c12_sorted_iff _).mp hinv'.1) ((c12_sorted_iff _).mp hinv.1) hpp
      have en : out'.neg.map (·.1) = out.neg.map (·.1) :=
        List.Perm.eq_of_pairwise (le := (· ≤ ·)) (fun _ _ _ _ hab hba => Rat.le_antisymm hab hba)
          ((c12_sorted_iff _).mp hinv'.2) ((c12_sorted_iff _).mp hinv.2) hnn
      unfold GScores.toScores
      rw [ep, en, hcfg]
    have hp1 : out'.pos.Perm (c12_gatherPairs g.pos (r.1.idxPos.map σp)) := gp ▸ hperm'.1
    have hn1 : out'.neg.Perm (c12_gatherPairs g.neg (r.1.idxNeg.map σn)) := gn ▸ hperm'.2
    refine ⟨out', hgrun', by rw [hrun'', hrun0, hres0], hscore, hgroups, hcfg,
      fun hh => absurd hh hbg, fun _ => ⟨r.1.idxPos, r.1.idxNeg, hpr, hnr, ?_, ?_, hp1, hn1, ?_⟩⟩
    · rw [hout]; exact hperm.1
    · rw [hout]; exact hperm.2
    · refine ⟨hp1.trans hpermσ.1.symm, hn1.trans hpermσ.2.symm,
        c12_make_inv _ _ _ _ false (fun hh => absurd hh (by simp)), hinv', ?_, ?_⟩
      · exact (c12_make_cfg _ _ _ _ _).trans (c12_make_cfg _ _ _ _ _).symm
      · exact (c12_make_groups_some _ _ _ _ _).trans (c12_make_groups_some _ _ _ _ _).symm

/-! ### the main theorem -/

/-- **C12 (tie order is irrelevant).**  Let `g` and `g'` hold ANY two admissible joint orders of the
same `(score, label)` pairs (permutation of the input, sorted by score — e.g. the model's stable sort
and whatever `np.argsort` produced), with the same flags and group list.  Then

1. every observable agrees (`c12_ObsEq`): score arrays, group list, flags, `gs[grp]` for every `grp`
   (equal as lists; same `ValueError` for unknown groups), the per-group confusion matrices and rates
   at every threshold, the overall matrix, `groupwise(metric)` for any metric, and the outputs of any
   history of queries through the cache;
2. the same holds for the two `swap()`s, which are again tie-equivalent;
3. sampling: `bootstrap_sample` issues the same requests and leaves the same RNG state on every
   script and fails with the same error; stratified by group it returns the same object; otherwise
   there are re-indexings `σp`, `σn` — permutations of the index ranges that map every block of tied
   scores to itself and satisfy `g'.pos[i] = g.pos[σp i]` — such that on every in-support run the
   sample drawn from `g'` has the same score arrays as the one drawn from `g` and is an admissible
   order of the sample of `g` for the re-indexed draws (`c12_tieEq_sample`): per draw, the
   index-carried labels give the same multiset of `(score, label)` pairs under `σ`. -/
theorem C12_tie_order_irrelevant (g g' : GScores) (h : c12_TieEq g g') :
    c12_ObsEq g g' ∧
    (c12_TieEq g.swap g'.swap ∧ c12_ObsEq g.swap g'.swap) ∧
    (∀ (c : GBootCfg) (st : RngState),
      (g'.bootstrapSample c st).2 = (g.bootstrapSample c st).2 ∧
      (∀ e, (g'.bootstrapSample c st).1 = .error e ↔ (g.bootstrapSample c st).1 = .error e) ∧
      (c.strat = .byGroup → g'.bootstrapSample c st = g.bootstrapSample c st)) ∧
    ∃ σp σn : Nat → Nat, c12_Reindex g.pos g'.pos σp ∧ c12_Reindex g.neg g'.neg σn ∧
      ∀ (c : GBootCfg) (script : List (List Nat)) (out : GScores), GRun g c script out →
        ∃ out', GRun g' c script out' ∧
          (g'.runSample c script).2 = (g.runSample c script).2 ∧
          out'.toScores = out.toScores ∧ out'.groups = out.groups ∧ out'.cfg = out.cfg ∧
          (c.strat = .byGroup → out' = out) ∧
          (c.strat ≠ .byGroup → ∃ idxP idxN : List Nat,
            (∀ i ∈ idxP, i < g.pos.length) ∧ (∀ i ∈ idxN, i < g.neg.length) ∧
            out.pos.Perm (c12_gatherPairs g.pos idxP) ∧
            out.neg.Perm (c12_gatherPairs g.neg idxN) ∧
            out'.pos.Perm (c12_gatherPairs g.pos (idxP.map σp)) ∧
            out'.neg.Perm (c12_gatherPairs g.neg (idxN.map σn)) ∧
            c12_TieEq (GScores.make (c12_gatherPairs g.pos (idxP.map σp))
              (c12_gatherPairs g.neg (idxN.map σn)) g.cfg (some g.groups) false) out') := by
  obtain ⟨σp, hσp⟩ := c12_reindex_exists h.pos h.inv.1 h.inv'.1
  obtain ⟨σn, hσn⟩ := c12_reindex_exists h.neg h.inv.2 h.inv'.2
  exact ⟨c12_tieEq_obs h, ⟨c12_tieEq_swap h, c12_tieEq_obs (c12_tieEq_swap h)⟩,
    fun c st => c12_tieEq_sample_state h c st, σp, σn, hσp, hσn,
    fun c script out hr => c12_tieEq_sample h hσp hσn c script out hr⟩

/-- **C12 (constructor form).**  For the constructor's input `pos`, `neg`: EVERY object whose arrays
are admissible joint orders of the input (with the constructor's flags and group list) has the
observables of the model's object, which sorts stably. -/
theorem C12_tie_order_irrelevant_make (pos neg : List (Rat × Nat)) (cfg : Cfg)
    (gn : Option (List Nat)) (g' : GScores) (hp : c12_Admissible pos g'.pos)
    (hn : c12_Admissible neg g'.neg) (hc : g'.cfg = cfg)
    (hg : g'.groups = (GScores.make pos neg cfg gn false).groups) :
    c12_TieEq (GScores.make pos neg cfg gn false) g' ∧
    c12_ObsEq (GScores.make pos neg cfg gn false) g' ∧
    c12_ObsEq (GScores.make pos neg cfg gn false).swap g'.swap :=
  have h := c12_tieEq_of_admissible pos neg cfg gn g' hp hn hc hg
  ⟨h, c12_tieEq_obs h, c12_tieEq_obs (c12_tieEq_swap h)⟩

/-! ### a tied block: two admissible orders that differ as pair lists -/

/-- input with a block of three tied scores (score 2) carrying the labels 1, 0, 1 -/
def c12_tiePos : List (Rat × Nat) := [(3, 0), (2, 1), (1, 0), (2, 0), (2, 1)]
def c12_tieNeg : List (Rat × Nat) := [(2, 1), (0, 1), (2, 0)]

/-- one admissible order: the tied blocks keep the input order of the labels (1, 0, 1 resp. 1, 0;
this is what a stable sort returns) -/
def c12_tieA : GScores :=
  ⟨[(1, 0), (2, 1), (2, 0), (2, 1), (3, 0)], [(0, 1), (2, 1), (2, 0)], ⟨.pos, .neg⟩, [0, 1]⟩

/-- another admissible order: the tied blocks in a different label order (what an unstable argsort
may return) -/
def c12_tieB : GScores :=
  ⟨[(1, 0), (2, 0), (2, 1), (2, 1), (3, 0)], [(0, 1), (2, 0), (2, 1)], ⟨.pos, .neg⟩, [0, 1]⟩

/-- both orders are admissible for the same input … -/
theorem c12_tieA_admissible :
    c12_Admissible c12_tiePos c12_tieA.pos ∧ c12_Admissible c12_tieNeg c12_tieA.neg := by
  refine ⟨⟨List.isPerm_iff.mp (by decide +kernel), by decide +kernel⟩,
    ⟨List.isPerm_iff.mp (by decide +kernel), by decide +kernel⟩⟩

theorem c12_tieB_admissible :
    c12_Admissible c12_tiePos c12_tieB.pos ∧ c12_Admissible c12_tieNeg c12_tieB.neg := by
  refine ⟨⟨List.isPerm_iff.mp (by decide +kernel), by decide +kernel⟩,
    ⟨List.isPerm_iff.mp (by decide +kernel), by decide +kernel⟩⟩

/-- the group list of the constructed object (`sorted(set(labels))`) -/
theorem c12_tie_groups :
    (GScores.make c12_tiePos c12_tieNeg ⟨.pos, .neg⟩ none false).groups = [0, 1] := by
  rw [c12_make_groups_none]; decide +kernel

/-- … they DIFFER as pair lists (in both classes) … -/
example : c12_tieA.pos ≠ c12_tieB.pos ∧ c12_tieA.neg ≠ c12_tieB.neg := by
  constructor <;> decide +kernel

/-- … so the hypothesis of `C12_tie_order_irrelevant` holds non-trivially … -/
theorem c12_tieAB : c12_TieEq c12_tieA c12_tieB :=
  (c12_tieEq_of_admissible c12_tiePos c12_tieNeg ⟨.pos, .neg⟩ none c12_tieA
    c12_tieA_admissible.1 c12_tieA_admissible.2 rfl c12_tie_groups.symm).symm.trans
  (c12_tieEq_of_admissible c12_tiePos c12_tieNeg ⟨.pos, .neg⟩ none c12_tieB
    c12_tieB_admissible.1 c12_tieB_admissible.2 rfl c12_tie_groups.symm)

/-- both have the observables of the constructor's (stably sorted) object -/
example : c12_ObsEq (GScores.make c12_tiePos c12_tieNeg ⟨.pos, .neg⟩ none false) c12_tieA ∧
    c12_ObsEq (GScores.make c12_tiePos c12_tieNeg ⟨.pos, .neg⟩ none false) c12_tieB :=
  ⟨(C12_tie_order_irrelevant_make _ _ _ none _ c12_tieA_admissible.1 c12_tieA_admissible.2 rfl
      c12_tie_groups.symm).2.1,
   (C12_tie_order_irrelevant_make _ _ _ none _ c12_tieB_admissible.1 c12_tieB_admissible.2 rfl
      c12_tie_groups.symm).2.1⟩

/-- … and all observables agree (by the theorem) -/
example : c12_ObsEq c12_tieA c12_tieB ∧ c12_ObsEq c12_tieA.swap c12_tieB.swap :=
  ⟨(C12_tie_order_irrelevant _ _ c12_tieAB).1, (C12_tie_order_irrelevant _ _ c12_tieAB).2.1.2⟩

/-- the same, kernel-checked on the concrete objects without the theorem: `gs[grp]` for both groups
and an unknown one, group matrices and the overall matrix at thresholds below / inside / above the
tied block and at ±inf, the group list, and the same for `swap()` -/
example :
    (∀ grp ∈ [0, 1, 2], (c12_tieB.groupScores grp).pos = (c12_tieA.groupScores grp).pos ∧
      (c12_tieB.groupScores grp).neg = (c12_tieA.groupScores grp).neg ∧
      c12_tieB.groups.contains grp = c12_tieA.groups.contains grp) ∧
    (∀ t ∈ [ERat.negInf, .fin 1, .fin 2, .fin (5 / 2), .fin 3, .posInf],
      c12_tieB.groupCm t = c12_tieA.groupCm t ∧ c12_tieB.overallCm t = c12_tieA.overallCm t ∧
      c12_tieB.swap.groupCm t = c12_tieA.swap.groupCm t ∧
      c12_tieB.swap.overallCm t = c12_tieA.swap.overallCm t) ∧
    c12_tieB.groups = c12_tieA.groups ∧ c12_tieB.swap.groups = c12_tieA.swap.groups ∧
    c12_tieB.toScores.pos = c12_tieA.toScores.pos ∧ c12_tieB.toScores.neg = c12_tieA.toScores.neg ∧
    c12_tieB.swap.pos ≠ c12_tieA.swap.pos := by
  refine ⟨?_, ?_, ?_, ?_, ?_, ?_, ?_⟩ <;> decide +kernel

/-- a re-indexing of the positive arrays: positions 1 and 2 of the tied block are exchanged -/
example : c12_Reindex c12_tieA.pos c12_tieB.pos (fun i => if i = 1 then 2 else if i = 2 then 1 else i) := by
  refine ⟨List.isPerm_iff.mp (by decide +kernel), ?_, ?_, ?_⟩ <;> decide +kernel

/-- sampling: a replacement run on the model's object exists, so the sampling part of the theorem
is not vacuous; the same script on the other order returns a sample (by the theorem) -/
theorem c12_tie_run : ∃ out, GRun c12_tieA ⟨.replacement, .none, false⟩
    [[5], [0], [0], [1, 2, 2, 3, 0], [1, 1, 2]] out :=
  GRun.exists_of_isOk (by decide +kernel) (by decide +kernel)

example : ∃ out', GRun c12_tieB ⟨.replacement, .none, false⟩
    [[5], [0], [0], [1, 2, 2, 3, 0], [1, 1, 2]] out' := by
  obtain ⟨out, hr⟩ := c12_tie_run
  obtain ⟨_, _, _, σp, σn, _, _, hs⟩ := C12_tie_order_irrelevant _ _ c12_tieAB
  obtain ⟨out', h', _⟩ := hs _ _ out hr
  exact ⟨out', h'⟩

end SA
