/-
C13 — bootstrap confidence limits follow the documented quantile / BC / BCa formulas.
-/
import SA.Proofs.Quantile
import SA.Spec.C13

namespace SA
open Spec.C13

/-- order on extended rationals -/
def ERat.le : ERat → ERat → Prop
  | .negInf, _ => True
  | _, .posInf => True
  | .fin a, .fin b => a ≤ b
  | _, _ => False

/-- hypotheses on the normal cdf / ppf oracles -/
structure Normal.Lawful (n : Normal) : Prop where
  cdf_mono : ∀ a b, ERat.le a b → n.cdf a ≤ n.cdf b
  cdf_nonneg : ∀ a, 0 ≤ n.cdf a
  ppf_mono : ∀ p q, p ≤ q → ERat.le (n.ppf p) (n.ppf q)
  ppf_fin : ∀ p, 0 < p → p < 1 → ∃ x, n.ppf p = .fin x

/-- order on possibly-NaN results: both defined and ordered, or both NaN -/
def optLe : Option ℚ → Option ℚ → Prop
  | some a, some b => a ≤ b
  | none, none => True
  | _, _ => False

/-! ### the documented formulas (definitional) -/

/-- **C13 (quantile).** The limits are the `alpha/2` and `1 - alpha/2` empirical quantiles. -/
theorem C13_quantile_levels (nrm : Normal) (p15 : ℚ → ℚ) (vals : List (Option ℚ)) (th al : ℚ) :
    bootstrapCI nrm p15 .quantile vals th al =
      (quantileLinear vals (al / 2), quantileLinear vals (1 - al / 2)) := rfl

/-- **C13 (BC).** The levels are shifted by twice the normal score of the fraction of finite
replicates not exceeding the estimate. -/
theorem C13_bc_levels (nrm : Normal) (p15 : ℚ → ℚ) (vals : List (Option ℚ)) (th al p0 : ℚ)
    (h : fracLe vals th = some p0) :
    bootstrapCI nrm p15 .bc vals th al =
      (quantileLinear vals (nrm.cdf (ERat.add (ERat.double (nrm.ppf p0)) (nrm.ppf (al / 2)))),
       quantileLinear vals (nrm.cdf (ERat.add (ERat.double (nrm.ppf p0)) (nrm.ppf (1 - al / 2))))) := by
  simp [bootstrapCI, h, adjustedZ]

/-- **C13 (BCa).** With finite `z0 = Φ⁻¹(p0)` the levels are `Φ(z0 + s/(1 - a s))`,
`s = z0 + z_alpha`, `a` the documented acceleration. -/
theorem C13_bca_levels (nrm : Normal) (p15 : ℚ → ℚ) (vals : List (Option ℚ)) (th al p0 z0 zl zu : ℚ)
    (h : fracLe vals th = some p0) (hz0 : nrm.ppf p0 = .fin z0)
    (hzl : nrm.ppf (al / 2) = .fin zl) (hzu : nrm.ppf (1 - al / 2) = .fin zu) :
    bootstrapCI nrm p15 .bca vals th al =
      (quantileLinear vals (nrm.cdf (.fin (z0 + (z0 + zl) / (1 - acceleration p15 vals th * (z0 + zl))))),
       quantileLinear vals (nrm.cdf (.fin (z0 + (z0 + zu) / (1 - acceleration p15 vals th * (z0 + zu)))))) := by
  simp [bootstrapCI, h, adjustedZ, hz0, hzl, hzu]

/-! ### consequences -/

theorem quantile_mono (vals : List (Option ℚ)) (q1 q2 : ℚ) (h0 : 0 ≤ q1) (h : q1 ≤ q2) :
    optLe (quantileLinear vals q1) (quantileLinear vals q2) := by
  rw [quantileLinear_eq, quantileLinear_eq]
  by_cases hl : (sortQ (vals.filterMap id)).length = 0
  · rw [if_pos hl, if_pos hl]; trivial
  · rw [if_neg hl, if_neg hl]
    exact qcore_mono _ (sortQ_pairwise _) hl q1 q2 h0 h

/-- **C13 (ordered, quantile).** -/
theorem C13_ordered_quantile (nrm : Normal) (p15 : ℚ → ℚ) (vals : List (Option ℚ)) (th al : ℚ)
    (h0 : 0 ≤ al) (h1 : al ≤ 1) :
    optLe (bootstrapCI nrm p15 .quantile vals th al).1 (bootstrapCI nrm p15 .quantile vals th al).2 := by
  rw [C13_quantile_levels]
  exact quantile_mono vals _ _ (by linarith) (by linarith)

theorem ERat.add_fin_mono (z : ERat) (a b : ℚ) (h : a ≤ b) :
    ERat.le (ERat.add z (.fin a)) (ERat.add z (.fin b)) := by
  cases z <;> simp [ERat.add, ERat.le, h]

/-- **C13 (ordered, BC).** With monotone cdf/ppf oracles the BC limits are ordered. -/
theorem C13_ordered_bc (nrm : Normal) (hn : nrm.Lawful) (p15 : ℚ → ℚ) (vals : List (Option ℚ))
    (th al : ℚ) (h0 : 0 < al) (h1 : al < 1) :
    optLe (bootstrapCI nrm p15 .bc vals th al).1 (bootstrapCI nrm p15 .bc vals th al).2 := by
  cases hf : fracLe vals th with
  | none =>
    simp [bootstrapCI, hf, optLe]
  | some p0 =>
    rw [C13_bc_levels nrm p15 vals th al p0 hf]
    obtain ⟨zl, hzl⟩ := hn.ppf_fin (al / 2) (by linarith) (by linarith)
    obtain ⟨zu, hzu⟩ := hn.ppf_fin (1 - al / 2) (by linarith) (by linarith)
    have hm := hn.ppf_mono (al / 2) (1 - al / 2) (by linarith)
    rw [hzl, hzu] at hm ⊢
    exact quantile_mono vals _ _ (hn.cdf_nonneg _)
      (hn.cdf_mono _ _ (ERat.add_fin_mono _ zl zu hm))

/-- **C13 (ordered, BCa)** on the branch where the acceleration term stays below its pole for
both tails (`a (z0 + z_alpha) < 1`): `s ↦ s / (1 - a s)` is increasing there. -/
theorem C13_ordered_bca (nrm : Normal) (hn : nrm.Lawful) (p15 : ℚ → ℚ) (vals : List (Option ℚ))
    (th al p0 z0 zl zu : ℚ) (h : fracLe vals th = some p0) (hz0 : nrm.ppf p0 = .fin z0)
    (hzl : nrm.ppf (al / 2) = .fin zl) (hzu : nrm.ppf (1 - al / 2) = .fin zu)
    (hal0 : 0 ≤ al) (hal1 : al ≤ 1)
    (hb1 : acceleration p15 vals th * (z0 + zl) < 1) (hb2 : acceleration p15 vals th * (z0 + zu) < 1) :
    optLe (bootstrapCI nrm p15 .bca vals th al).1 (bootstrapCI nrm p15 .bca vals th al).2 := by
  rw [C13_bca_levels nrm p15 vals th al p0 z0 zl zu h hz0 hzl hzu]
  have hm := hn.ppf_mono (al / 2) (1 - al / 2) (by linarith)
  rw [hzl, hzu] at hm
  have hm' : zl ≤ zu := hm
  apply quantile_mono vals _ _ (hn.cdf_nonneg _)
  apply hn.cdf_mono
  show z0 + (z0 + zl) / (1 - acceleration p15 vals th * (z0 + zl)) ≤
    z0 + (z0 + zu) / (1 - acceleration p15 vals th * (z0 + zu))
  have d1 : 0 < 1 - acceleration p15 vals th * (z0 + zl) := by linarith
  have d2 : 0 < 1 - acceleration p15 vals th * (z0 + zu) := by linarith
  have : (z0 + zl) / (1 - acceleration p15 vals th * (z0 + zl)) ≤
      (z0 + zu) / (1 - acceleration p15 vals th * (z0 + zu)) := by
    rw [div_le_div_iff₀ d1 d2]; nlinarith
  linarith

/-- **C13 (range).** Whatever the level, a defined limit lies within the range of the finite
replicates; it is NaN exactly when there is no finite replicate. -/
theorem C13_in_range (vals : List (Option ℚ)) (q : ℚ) :
    match quantileLinear vals q with
    | none => vals.filterMap id = []
    | some r => (∃ a ∈ vals.filterMap id, a ≤ r) ∧ (∃ b ∈ vals.filterMap id, r ≤ b) := by
  rw [quantileLinear_eq]
  by_cases hl : (sortQ (vals.filterMap id)).length = 0
  · simp only [hl, if_true]
    rw [length_sortQ] at hl
    exact List.eq_nil_of_length_eq_zero hl
  · simp only [hl, if_false]
    obtain ⟨b1, b2⟩ := qcore_bounds _ (sortQ_pairwise _) hl q
    have m1 : (sortQ (vals.filterMap id)).getD 0 0 ∈ vals.filterMap id :=
      (sortQ_perm _).mem_iff.mp (getD_mem _ 0 (by omega))
    have m2 : (sortQ (vals.filterMap id)).getD ((sortQ (vals.filterMap id)).length - 1) 0 ∈
        vals.filterMap id := (sortQ_perm _).mem_iff.mp (getD_mem _ _ (by omega))
    exact ⟨⟨_, m1, b1⟩, ⟨_, m2, b2⟩⟩

theorem quantile_perm (vals vals' : List (Option ℚ))
    (h : (vals.filterMap id).Perm (vals'.filterMap id)) (q : ℚ) :
    quantileLinear vals q = quantileLinear vals' q := by
  rw [quantileLinear_eq, quantileLinear_eq, sortQ_eq_of_perm _ _ h]

/-- **C13 (NaN- and order-invariance).** The limits depend only on the multiset of finite
replicates: NaN replicates and any reordering leave them unchanged (all three methods). -/
theorem C13_invariant (nrm : Normal) (p15 : ℚ → ℚ) (m : BootMethod) (vals vals' : List (Option ℚ))
    (h : (vals.filterMap id).Perm (vals'.filterMap id)) (th al : ℚ) :
    bootstrapCI nrm p15 m vals th al = bootstrapCI nrm p15 m vals' th al := by
  have hq := quantile_perm vals vals' h
  have hf : fracLe vals th = fracLe vals' th := by
    unfold fracLe; simp only [h.length_eq, h.countP_eq]
  have ha : acceleration p15 vals th = acceleration p15 vals' th := by
    unfold acceleration
    simp only [(h.map _).sum_eq]
  cases m <;> simp only [bootstrapCI, hq, hf, ha]

/-- **C13 (affine equivariance, quantiles).** -/
theorem quantile_affine (vals : List (Option ℚ)) (c d q : ℚ) (hc : 0 < c) :
    quantileLinear (vals.map (Option.map fun x => c * x + d)) q =
      (quantileLinear vals q).map (fun x => c * x + d) := by
  rw [quantileLinear_eq, quantileLinear_eq]
  have hfm : (vals.map (Option.map fun x => c * x + d)).filterMap id =
      (vals.filterMap id).map (fun x => c * x + d) := by
    induction vals with
    | nil => rfl
    | cons a l ih => cases a <;> simp [List.filterMap_cons] at ih ⊢ <;> exact ih
  rw [hfm, sortQ_map_affine _ c d hc, List.length_map]
  by_cases hl : (sortQ (vals.filterMap id)).length = 0
  · rw [if_pos hl, if_pos hl]; rfl
  · rw [if_neg hl, if_neg hl]
    simp only [Option.map]
    rw [qcore_map_affine _ hl]

theorem filterMap_map_affine (vals : List (Option ℚ)) (c d : ℚ) :
    (vals.map (Option.map fun x => c * x + d)).filterMap id =
      (vals.filterMap id).map (fun x => c * x + d) := by
  induction vals with
  | nil => rfl
  | cons a l ih => cases a <;> simp [List.filterMap_cons] at ih ⊢ <;> exact ih

theorem sum_map_mul_left (l : List ℚ) (k : ℚ) (g : ℚ → ℚ) :
    (l.map fun x => k * g x).sum = k * (l.map g).sum := by
  induction l with
  | nil => simp
  | cons a l ih => simp only [List.map_cons, List.sum_cons, ih]; ring

/-- **C13 (affine equivariance).** For `c > 0` the limits of `c θ + d` around `c θ̂ + d` are
`c·limit + d`, for all three methods (BCa needs `(c² x)^1.5 = c³ x^1.5` of the power oracle). -/
theorem C13_affine (nrm : Normal) (p15 : ℚ → ℚ) (m : BootMethod) (vals : List (Option ℚ))
    (th al c d : ℚ) (hc : 0 < c) (hp : ∀ x, p15 (c * c * x) = c * c * c * p15 x) :
    bootstrapCI nrm p15 m (vals.map (Option.map fun x => c * x + d)) (c * th + d) al =
      ((bootstrapCI nrm p15 m vals th al).1.map (fun x => c * x + d),
       (bootstrapCI nrm p15 m vals th al).2.map (fun x => c * x + d)) := by
  have hq := fun q => quantile_affine vals c d q hc
  have hf : fracLe (vals.map (Option.map fun x => c * x + d)) (c * th + d) = fracLe vals th := by
    unfold fracLe
    rw [filterMap_map_affine]
    dsimp only
    rw [List.length_map, List.countP_map]
    have hfun : ((fun x => decide (x ≤ c * th + d)) ∘ fun x => c * x + d) =
        fun x => decide (x ≤ th) := by
      funext x
      simp only [Function.comp, decide_eq_decide]
      constructor <;> intro h <;> nlinarith
    rw [hfun]
  have ha : acceleration p15 (vals.map (Option.map fun x => c * x + d)) (c * th + d) =
      acceleration p15 vals th := by
    unfold acceleration
    rw [filterMap_map_affine]
    dsimp only
    rw [List.map_map, List.map_map]
    have e3 : ((fun x => (x - (c * th + d)) * (x - (c * th + d)) * (x - (c * th + d))) ∘
        fun x => c * x + d) = fun x => (c * c * c) * ((x - th) * (x - th) * (x - th)) := by
      funext x; simp only [Function.comp]; ring
    have e2 : ((fun x => (x - (c * th + d)) * (x - (c * th + d))) ∘ fun x => c * x + d) =
        fun x => (c * c) * ((x - th) * (x - th)) := by
      funext x; simp only [Function.comp]; ring
    rw [e3, e2, sum_map_mul_left, sum_map_mul_left, hp]
    have hc3 : c * c * c ≠ 0 := by positivity
    by_cases hden : 6 * p15 ((List.filterMap id vals).map (fun x => (x - th) * (x - th))).sum = 0
    · have : 6 * (c * c * c * p15 ((List.filterMap id vals).map (fun x => (x - th) * (x - th))).sum) = 0 := by
        have h' : p15 ((List.filterMap id vals).map (fun x => (x - th) * (x - th))).sum = 0 := by linarith
        rw [h']; ring
      rw [if_pos this, if_pos hden]
    · have : ¬ 6 * (c * c * c * p15 ((List.filterMap id vals).map (fun x => (x - th) * (x - th))).sum) = 0 := by
        intro h'
        apply hden
        have : c * c * c * (6 * p15 ((List.filterMap id vals).map (fun x => (x - th) * (x - th))).sum) = 0 := by
          linarith
        rcases mul_eq_zero.mp this with h'' | h''
        · exact absurd h'' hc3
        · exact h''
      rw [if_neg this, if_neg hden]
      field_simp
  cases m
  · simp only [bootstrapCI, hq]
  · simp only [bootstrapCI, hf, hq]
    cases fracLe vals th <;> simp
  · simp only [bootstrapCI, hf, ha, hq]
    cases fracLe vals th <;> simp

/-- **C13 (nested, quantile).** A larger `alpha` gives an interval inside the one for a smaller. -/
theorem C13_nested_quantile (nrm : Normal) (p15 : ℚ → ℚ) (vals : List (Option ℚ)) (th a1 a2 : ℚ)
    (h0 : 0 ≤ a1) (h : a1 ≤ a2) (h1 : a2 ≤ 1) :
    optLe (bootstrapCI nrm p15 .quantile vals th a1).1 (bootstrapCI nrm p15 .quantile vals th a2).1 ∧
    optLe (bootstrapCI nrm p15 .quantile vals th a2).2 (bootstrapCI nrm p15 .quantile vals th a1).2 := by
  simp only [C13_quantile_levels]
  exact ⟨quantile_mono vals _ _ (by linarith) (by linarith),
    quantile_mono vals _ _ (by linarith) (by linarith)⟩

/-- **C13 (nested, BC).** -/
theorem C13_nested_bc (nrm : Normal) (hn : nrm.Lawful) (p15 : ℚ → ℚ) (vals : List (Option ℚ))
    (th a1 a2 : ℚ) (h0 : 0 < a1) (h : a1 ≤ a2) (h1 : a2 < 1) :
    optLe (bootstrapCI nrm p15 .bc vals th a1).1 (bootstrapCI nrm p15 .bc vals th a2).1 ∧
    optLe (bootstrapCI nrm p15 .bc vals th a2).2 (bootstrapCI nrm p15 .bc vals th a1).2 := by
  cases hf : fracLe vals th with
  | none => simp [bootstrapCI, hf, optLe]
  | some p0 =>
    rw [C13_bc_levels nrm p15 vals th a1 p0 hf, C13_bc_levels nrm p15 vals th a2 p0 hf]
    obtain ⟨l1, hl1⟩ := hn.ppf_fin (a1 / 2) (by linarith) (by linarith)
    obtain ⟨l2, hl2⟩ := hn.ppf_fin (a2 / 2) (by linarith) (by linarith)
    obtain ⟨u1, hu1⟩ := hn.ppf_fin (1 - a1 / 2) (by linarith) (by linarith)
    obtain ⟨u2, hu2⟩ := hn.ppf_fin (1 - a2 / 2) (by linarith) (by linarith)
    have m1 := hn.ppf_mono (a1 / 2) (a2 / 2) (by linarith)
    have m2 := hn.ppf_mono (1 - a2 / 2) (1 - a1 / 2) (by linarith)
    rw [hl1, hl2] at m1 ⊢
    rw [hu1, hu2] at m2 ⊢
    exact ⟨quantile_mono vals _ _ (hn.cdf_nonneg _) (hn.cdf_mono _ _ (ERat.add_fin_mono _ l1 l2 m1)),
      quantile_mono vals _ _ (hn.cdf_nonneg _) (hn.cdf_mono _ _ (ERat.add_fin_mono _ u2 u1 m2))⟩

/-- spec form: the quantile-method limits of the model are ordered and in range -/
theorem C13_spec_quantile (nrm : Normal) (p15 : ℚ → ℚ) (vals : List (Option ℚ)) (th al : ℚ)
    (h0 : 0 ≤ al) (h1 : al ≤ 1) :
    orderedOK (bootstrapCI nrm p15 .quantile vals th al) = true ∧
    inRangeOK vals (bootstrapCI nrm p15 .quantile vals th al) = true := by
  have ho := C13_ordered_quantile nrm p15 vals th al h0 h1
  rw [C13_quantile_levels] at ho ⊢
  have r1 := C13_in_range vals (al / 2)
  have r2 := C13_in_range vals (1 - al / 2)
  cases hlo : quantileLinear vals (al / 2) <;> cases hhi : quantileLinear vals (1 - al / 2) <;>
    simp only [hlo, hhi, optLe] at ho r1 r2 ⊢
  · simp only [orderedOK, inRangeOK, r1, List.isEmpty_nil, and_self]
  · simp only [orderedOK, inRangeOK, Bool.and_eq_true, decide_eq_true_eq, List.any_eq_true]
    obtain ⟨⟨a, ha, ha'⟩, _⟩ := r1
    obtain ⟨_, ⟨b, hb, hb'⟩⟩ := r2
    exact ⟨ho, ⟨a, ha, ha'⟩, ⟨b, hb, hb'⟩⟩

/-- Non-vacuity: a lawful pair of oracles exists. -/
def Normal.toy : Normal where
  cdf := fun z => match z with
    | .negInf => 0
    | .posInf => 1
    | .fin x => max 0 (min ((x + 1) / 2) 1)
  ppf := fun p => if p ≤ 0 then .negInf else if 1 ≤ p then .posInf else .fin (2 * p - 1)

theorem Normal.toy_lawful : Normal.toy.Lawful where
  cdf_mono := by
    intro a b h
    have hr : ∀ x : ℚ, 0 ≤ max 0 (min ((x + 1) / 2) 1) ∧ max 0 (min ((x + 1) / 2) 1) ≤ 1 :=
      fun x => ⟨le_max_left _ _, max_le (by norm_num) (min_le_right _ _)⟩
    rcases a with _ | a | _ <;> rcases b with _ | b | _ <;> simp only [Normal.toy, ERat.le] at h ⊢
    · exact le_refl _
    · exact (hr b).1
    · norm_num
    · exact max_le_max (le_refl _) (min_le_min (by linarith) (le_refl _))
    · exact (hr a).2
    · exact le_refl _
  cdf_nonneg := by
    intro a
    rcases a with _ | a | _ <;> simp only [Normal.toy]
    · exact le_refl _
    · exact le_max_left _ _
    · norm_num
  ppf_mono := by
    intro p q h
    simp only [Normal.toy]
    by_cases hp : p ≤ 0
    · rw [if_pos hp]; split <;> (try split) <;> simp [ERat.le]
    · rw [if_neg hp]
      have hq0 : ¬ q ≤ 0 := by intro h'; exact hp (le_trans h h')
      rw [if_neg hq0]
      by_cases hq1 : 1 ≤ q
      · rw [if_pos hq1]; split <;> simp [ERat.le]
      · have hp1 : ¬ 1 ≤ p := by intro h'; exact hq1 (le_trans h' h)
        rw [if_neg hq1, if_neg hp1]; simp only [ERat.le]; linarith
  ppf_fin := by
    intro p h0 h1
    refine ⟨2 * p - 1, ?_⟩
    simp only [Normal.toy]
    rw [if_neg (by linarith), if_neg (by linarith)]

end SA
