/-
C13 — nesting in `alpha` of the BCa limits on the branch where the acceleration term stays below
its pole (`a (z0 + z) < 1`, i.e. `1 - a (z0 + z) > 0`, for the normal scores `z` of the tails).

On that branch `z ↦ z0 + (z0 + z) / (1 - a (z0 + z))` is increasing (derivative
`1 / (1 - a (z0 + z))²`), the cdf oracle is monotone and the linear quantile is monotone in its
level, so a larger `alpha` gives an interval inside the one for a smaller `alpha`.

The remaining branches of the model are covered as well:
* no finite replicate (`fracLe = none`): all four limits are NaN (`C13_bca_nan`);
* `z0 = ±inf` (all / none of the finite replicates `≤ thetaHat`): the code keeps `z0` as the level
  for both tails, the interval is the single point `quantile(cdf z0)` whatever `alpha`
  (`C13_bca_inf`), hence nested.
Off the branch nesting is false in general: `c13n_offBranch_counterexample`.
-/
import SA.Theorems.C13

namespace SA

/-! ### helper lemmas -/

theorem c13n_optLe_refl (x : Option ℚ) : optLe x x := by
  cases x <;> simp [optLe]

/-- the BCa level map is increasing between two points that are both below the pole -/
theorem c13n_bca_mono (a z0 x y : ℚ) (hxy : x ≤ y)
    (hx : a * (z0 + x) < 1) (hy : a * (z0 + y) < 1) :
    z0 + (z0 + x) / (1 - a * (z0 + x)) ≤ z0 + (z0 + y) / (1 - a * (z0 + y)) := by
  have d1 : 0 < 1 - a * (z0 + x) := by linarith
  have d2 : 0 < 1 - a * (z0 + y) := by linarith
  have : (z0 + x) / (1 - a * (z0 + x)) ≤ (z0 + y) / (1 - a * (z0 + y)) := by
    rw [div_le_div_iff₀ d1 d2]; nlinarith
  linarith

/-- `1 - a (z0 + w)` is affine in `w`: positive at both ends of `[x, y]`, positive in between -/
theorem c13n_between (a z0 x w y : ℚ) (hxw : x ≤ w) (hwy : w ≤ y)
    (hx : a * (z0 + x) < 1) (hy : a * (z0 + y) < 1) : a * (z0 + w) < 1 := by
  rcases le_total 0 a with ha | ha
  · have : a * (z0 + w) ≤ a * (z0 + y) := mul_le_mul_of_nonneg_left (by linarith) ha
    linarith
  · have : a * (z0 + w) ≤ a * (z0 + x) := mul_le_mul_of_nonpos_left (by linarith) ha
    linarith

/-- side condition of the BCa ordering / nesting claims at level `al`, for whatever `z0` the data
give: if `z0` is finite, the acceleration term is below its pole for both tails.  (Vacuous when
there is no finite replicate or `z0 = ±inf`.) -/
def c13n_onBranch (nrm : Normal) (p15 : ℚ → ℚ) (vals : List (Option ℚ)) (th al : ℚ) : Prop :=
  ∀ p0 z0 z, fracLe vals th = some p0 → nrm.ppf p0 = .fin z0 →
    (nrm.ppf (al / 2) = .fin z ∨ nrm.ppf (1 - al / 2) = .fin z) →
    acceleration p15 vals th * (z0 + z) < 1

/-! ### the degenerate branches of the model -/

/-- **C13 (BCa, no finite replicate).** Both limits are NaN. -/
theorem C13_bca_nan (nrm : Normal) (p15 : ℚ → ℚ) (vals : List (Option ℚ)) (th al : ℚ)
    (h : fracLe vals th = none) :
    bootstrapCI nrm p15 .bca vals th al = (none, none) := by
  simp [bootstrapCI, h]

/-- **C13 (BCa, infinite `z0`).** When `z0 = Φ⁻¹(p0)` is `±inf` the level of both tails is `z0`
itself: the interval is one point and does not depend on `alpha`. -/
theorem C13_bca_inf (nrm : Normal) (p15 : ℚ → ℚ) (vals : List (Option ℚ)) (th al p0 : ℚ)
    (h : fracLe vals th = some p0) (hz0 : ∀ x, nrm.ppf p0 ≠ .fin x) :
    bootstrapCI nrm p15 .bca vals th al =
      (quantileLinear vals (nrm.cdf (nrm.ppf p0)), quantileLinear vals (nrm.cdf (nrm.ppf p0))) := by
  simp only [bootstrapCI, h]
  cases hz : nrm.ppf p0 with
  | fin x => exact absurd hz (hz0 x)
  | negInf =>
    cases nrm.ppf (al / 2) <;> cases nrm.ppf (1 - al / 2) <;> simp [adjustedZ]
  | posInf =>
    cases nrm.ppf (al / 2) <;> cases nrm.ppf (1 - al / 2) <;> simp [adjustedZ]

/-! ### nesting -/

/-- **C13 (nested, BCa), outer-level form.** Finite `z0`; the acceleration term is below its pole
for the two tails of the SMALLER `alpha` (the outer interval).  Then the same holds for the tails
of the larger `alpha` and the interval at `a2` lies inside the interval at `a1`. -/
theorem C13_nested_bca_outer (nrm : Normal) (hn : nrm.Lawful) (p15 : ℚ → ℚ)
    (vals : List (Option ℚ)) (th a1 a2 p0 z0 l1 u1 l2 u2 : ℚ)
    (h : fracLe vals th = some p0) (hz0 : nrm.ppf p0 = .fin z0)
    (hl1 : nrm.ppf (a1 / 2) = .fin l1) (hu1 : nrm.ppf (1 - a1 / 2) = .fin u1)
    (hl2 : nrm.ppf (a2 / 2) = .fin l2) (hu2 : nrm.ppf (1 - a2 / 2) = .fin u2)
    (h12 : a1 ≤ a2) (h1 : a2 ≤ 1)
    (hbl1 : acceleration p15 vals th * (z0 + l1) < 1)
    (hbu1 : acceleration p15 vals th * (z0 + u1) < 1) :
    optLe (bootstrapCI nrm p15 .bca vals th a1).1 (bootstrapCI nrm p15 .bca vals th a2).1 ∧
    optLe (bootstrapCI nrm p15 .bca vals th a2).2 (bootstrapCI nrm p15 .bca vals th a1).2 := by
  rw [C13_bca_levels nrm p15 vals th a1 p0 z0 l1 u1 h hz0 hl1 hu1,
    C13_bca_levels nrm p15 vals th a2 p0 z0 l2 u2 h hz0 hl2 hu2]
  have m1 := hn.ppf_mono (a1 / 2) (a2 / 2) (by linarith)
  have m2 := hn.ppf_mono (a2 / 2) (1 - a2 / 2) (by linarith)
  have m3 := hn.ppf_mono (1 - a2 / 2) (1 - a1 / 2) (by linarith)
  rw [hl1, hl2] at m1
  rw [hl2, hu2] at m2
  rw [hu2, hu1] at m3
  have m1' : l1 ≤ l2 := m1
  have m2' : l2 ≤ u2 := m2
  have m3' : u2 ≤ u1 := m3
  have hbl2 : acceleration p15 vals th * (z0 + l2) < 1 :=
    c13n_between _ z0 l1 l2 u1 m1' (by linarith) hbl1 hbu1
  have hbu2 : acceleration p15 vals th * (z0 + u2) < 1 :=
    c13n_between _ z0 l1 u2 u1 (by linarith) m3' hbl1 hbu1
  exact ⟨quantile_mono vals _ _ (hn.cdf_nonneg _)
      (hn.cdf_mono _ _ (c13n_bca_mono _ z0 l1 l2 m1' hbl1 hbl2)),
    quantile_mono vals _ _ (hn.cdf_nonneg _)
      (hn.cdf_mono _ _ (c13n_bca_mono _ z0 u2 u1 m3' hbu2 hbu1))⟩

/-- **C13 (nested, BCa)** on the branch where the acceleration term stays below its pole for both
tails and both levels (`a (z0 + z) < 1` for the four normal scores involved; same form of side
condition as `C13_ordered_bca`): the interval at the larger `alpha` lies inside the interval at
the smaller one. -/
theorem C13_nested_bca (nrm : Normal) (hn : nrm.Lawful) (p15 : ℚ → ℚ)
    (vals : List (Option ℚ)) (th a1 a2 p0 z0 l1 u1 l2 u2 : ℚ)
    (h : fracLe vals th = some p0) (hz0 : nrm.ppf p0 = .fin z0)
    (hl1 : nrm.ppf (a1 / 2) = .fin l1) (hu1 : nrm.ppf (1 - a1 / 2) = .fin u1)
    (hl2 : nrm.ppf (a2 / 2) = .fin l2) (hu2 : nrm.ppf (1 - a2 / 2) = .fin u2)
    (_h0 : 0 ≤ a1) (h12 : a1 ≤ a2) (h1 : a2 ≤ 1)
    (hbl1 : acceleration p15 vals th * (z0 + l1) < 1)
    (hbu1 : acceleration p15 vals th * (z0 + u1) < 1)
    (_hbl2 : acceleration p15 vals th * (z0 + l2) < 1)
    (_hbu2 : acceleration p15 vals th * (z0 + u2) < 1) :
    optLe (bootstrapCI nrm p15 .bca vals th a1).1 (bootstrapCI nrm p15 .bca vals th a2).1 ∧
    optLe (bootstrapCI nrm p15 .bca vals th a2).2 (bootstrapCI nrm p15 .bca vals th a1).2 :=
  C13_nested_bca_outer nrm hn p15 vals th a1 a2 p0 z0 l1 u1 l2 u2 h hz0 hl1 hu1 hl2 hu2
    h12 h1 hbl1 hbu1

/-- **C13 (nested, BCa), total form** (same shape as `C13_nested_bc`): for `0 < a1 ≤ a2 < 1`, lawful
normal oracles, and the side condition at the outer level `a1` only, the BCa interval at `a2` lies
inside the interval at `a1` — in every branch of the model: no finite replicate (all limits NaN),
`z0 = ±inf` (both intervals are the same single point), finite `z0` (below the pole). -/
theorem C13_nested_bca_total (nrm : Normal) (hn : nrm.Lawful) (p15 : ℚ → ℚ)
    (vals : List (Option ℚ)) (th a1 a2 : ℚ) (h0 : 0 < a1) (h : a1 ≤ a2) (h1 : a2 < 1)
    (hb : c13n_onBranch nrm p15 vals th a1) :
    optLe (bootstrapCI nrm p15 .bca vals th a1).1 (bootstrapCI nrm p15 .bca vals th a2).1 ∧
    optLe (bootstrapCI nrm p15 .bca vals th a2).2 (bootstrapCI nrm p15 .bca vals th a1).2 := by
  cases hf : fracLe vals th with
  | none =>
    rw [C13_bca_nan nrm p15 vals th a1 hf, C13_bca_nan nrm p15 vals th a2 hf]
    exact ⟨trivial, trivial⟩
  | some p0 =>
    by_cases hfin : ∃ z0, nrm.ppf p0 = .fin z0
    · obtain ⟨z0, hz0⟩ := hfin
      obtain ⟨l1, hl1⟩ := hn.ppf_fin (a1 / 2) (by linarith) (by linarith)
      obtain ⟨l2, hl2⟩ := hn.ppf_fin (a2 / 2) (by linarith) (by linarith)
      obtain ⟨u1, hu1⟩ := hn.ppf_fin (1 - a1 / 2) (by linarith) (by linarith)
      obtain ⟨u2, hu2⟩ := hn.ppf_fin (1 - a2 / 2) (by linarith) (by linarith)
      exact C13_nested_bca_outer nrm hn p15 vals th a1 a2 p0 z0 l1 u1 l2 u2 hf hz0 hl1 hu1 hl2 hu2
        h (le_of_lt h1) (hb p0 z0 l1 hf hz0 (Or.inl hl1))
        (hb p0 z0 u1 hf hz0 (Or.inr hu1))
    · have hinf : ∀ x, nrm.ppf p0 ≠ .fin x := fun x hx => hfin ⟨x, hx⟩
      rw [C13_bca_inf nrm p15 vals th a1 p0 hf hinf, C13_bca_inf nrm p15 vals th a2 p0 hf hinf]
      exact ⟨c13n_optLe_refl _, c13n_optLe_refl _⟩

/-! ### the hypotheses are satisfiable (non-trivial input: `z0 = 1/2`, acceleration `3/14`) -/

/-- replicates `0, 1, NaN, 2, 5` around the estimate `2`; toy power oracle `x ↦ x` -/
def c13n_vals : List (Option ℚ) := [some 0, some 1, none, some 2, some 5]

theorem c13n_ex_frac : fracLe c13n_vals 2 = some (3 / 4) := by decide +kernel

theorem c13n_ex_acc : acceleration (fun x => x) c13n_vals 2 = 3 / 14 := by decide +kernel

/-- the linear quantile of the example replicates (the sort is well-founded recursion and does not
reduce in the kernel, so it is discharged with `mergeSort_of_pairwise`) -/
theorem c13n_ex_quantile (q : ℚ) : quantileLinear c13n_vals q = some (qcore [0, 1, 2, 5] q) := by
  have hf : c13n_vals.filterMap id = [0, 1, 2, 5] := by decide +kernel
  have hs : sortQ [0, 1, 2, 5] = [0, 1, 2, 5] :=
    List.mergeSort_of_pairwise (by decide +kernel)
  rw [quantileLinear_eq, hf, hs]
  rfl

theorem c13n_ex_onBranch : c13n_onBranch Normal.toy (fun x => x) c13n_vals 2 (1 / 10) := by
  intro p0 z0 z hf hz0 hz
  rw [c13n_ex_frac] at hf
  have hp0 : p0 = 3 / 4 := (Option.some.inj hf).symm
  subst hp0
  rw [c13n_ex_acc]
  have e0 : Normal.toy.ppf (3 / 4) = .fin (1 / 2) := by decide +kernel
  have el : Normal.toy.ppf (1 / 10 / 2) = .fin (-9 / 10) := by decide +kernel
  have eu : Normal.toy.ppf (1 - 1 / 10 / 2) = .fin (9 / 10) := by decide +kernel
  rw [e0] at hz0
  have hz0' : z0 = 1 / 2 := (ERat.fin.inj hz0).symm
  subst hz0'
  rcases hz with hz | hz
  · rw [el] at hz
    have : z = -9 / 10 := (ERat.fin.inj hz).symm
    subst this; norm_num
  · rw [eu] at hz
    have : z = 9 / 10 := (ERat.fin.inj hz).symm
    subst this; norm_num

/-- hypotheses of `C13_nested_bca_total` hold for a concrete input with nonzero acceleration -/
example :
    optLe (bootstrapCI Normal.toy (fun x => x) .bca c13n_vals 2 (1 / 10)).1
        (bootstrapCI Normal.toy (fun x => x) .bca c13n_vals 2 (1 / 5)).1 ∧
    optLe (bootstrapCI Normal.toy (fun x => x) .bca c13n_vals 2 (1 / 5)).2
        (bootstrapCI Normal.toy (fun x => x) .bca c13n_vals 2 (1 / 10)).2 :=
  C13_nested_bca_total Normal.toy Normal.toy_lawful (fun x => x) c13n_vals 2 (1 / 10) (1 / 5)
    (by norm_num) (by norm_num) (by norm_num) c13n_ex_onBranch

/-- hypotheses of `C13_nested_bca` / `C13_nested_bca_outer` (explicit form) hold for the same
input: `z0 = 1/2`, tails `∓9/10` at `alpha = 1/10` and `∓4/5` at `alpha = 1/5`, `a = 3/14`. -/
example :
    optLe (bootstrapCI Normal.toy (fun x => x) .bca c13n_vals 2 (1 / 10)).1
        (bootstrapCI Normal.toy (fun x => x) .bca c13n_vals 2 (1 / 5)).1 ∧
    optLe (bootstrapCI Normal.toy (fun x => x) .bca c13n_vals 2 (1 / 5)).2
        (bootstrapCI Normal.toy (fun x => x) .bca c13n_vals 2 (1 / 10)).2 :=
  C13_nested_bca Normal.toy Normal.toy_lawful (fun x => x) c13n_vals 2 (1 / 10) (1 / 5)
    (3 / 4) (1 / 2) (-9 / 10) (9 / 10) (-4 / 5) (4 / 5)
    c13n_ex_frac (by decide +kernel) (by decide +kernel) (by decide +kernel) (by decide +kernel)
    (by decide +kernel) (by norm_num) (by norm_num) (by norm_num)
    (by rw [c13n_ex_acc]; norm_num) (by rw [c13n_ex_acc]; norm_num)
    (by rw [c13n_ex_acc]; norm_num) (by rw [c13n_ex_acc]; norm_num)

/-! ### the side condition cannot be dropped -/

/-- Off the branch nesting fails.  Same replicates and lawful toy oracles, power oracle `_ ↦ 3`
(acceleration `1`, pole at `z0 + z = 1`): at `alpha = 1/10` the upper tail is beyond the pole
(`z0 + z = 7/5`) and the upper limit drops to the smallest replicate `0`; at `alpha = 3/5` it is
below the pole (`z0 + z = 9/10`) and the upper limit is the largest replicate `5`.  So the interval
at the larger `alpha` is NOT inside the one at the smaller `alpha`. -/
theorem c13n_offBranch_counterexample :
    acceleration (fun _ => 3) c13n_vals 2 = 1 ∧
    (bootstrapCI Normal.toy (fun _ => 3) .bca c13n_vals 2 (1 / 10)).2 = some 0 ∧
    (bootstrapCI Normal.toy (fun _ => 3) .bca c13n_vals 2 (3 / 5)).2 = some 5 ∧
    ¬ optLe (bootstrapCI Normal.toy (fun _ => 3) .bca c13n_vals 2 (3 / 5)).2
        (bootstrapCI Normal.toy (fun _ => 3) .bca c13n_vals 2 (1 / 10)).2 := by
  have hacc : acceleration (fun _ => 3) c13n_vals 2 = 1 := by decide +kernel
  have e1 : (bootstrapCI Normal.toy (fun _ => 3) .bca c13n_vals 2 (1 / 10)).2 = some 0 := by
    rw [C13_bca_levels Normal.toy (fun _ => 3) c13n_vals 2 (1 / 10) (3 / 4) (1 / 2) (-9 / 10)
      (9 / 10) c13n_ex_frac (by decide +kernel) (by decide +kernel) (by decide +kernel)]
    show quantileLinear c13n_vals _ = some 0
    rw [hacc, c13n_ex_quantile]
    decide +kernel
  have e2 : (bootstrapCI Normal.toy (fun _ => 3) .bca c13n_vals 2 (3 / 5)).2 = some 5 := by
    rw [C13_bca_levels Normal.toy (fun _ => 3) c13n_vals 2 (3 / 5) (3 / 4) (1 / 2) (-2 / 5)
      (2 / 5) c13n_ex_frac (by decide +kernel) (by decide +kernel) (by decide +kernel)]
    show quantileLinear c13n_vals _ = some 5
    rw [hacc, c13n_ex_quantile]
    decide +kernel
  refine ⟨hacc, e1, e2, ?_⟩
  rw [e1, e2]
  simp [optLe]

end SA
