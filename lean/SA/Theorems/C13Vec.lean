/-
C13 — the axis bookkeeping of `utils.bootstrap_ci`: the whole-array model `bootstrapCIVec`
(`SA/Model/BootstrapVec.lean`, statement by statement: ravel of alpha, `np.stack(..., axis=0)`,
`np.nanquantile(theta, q=(2, Z'), axis=0)`, reshape, `np.moveaxis([0, 1] -> [-1, -2])`, reshape to
`Y + A + (2,)`; for bc / bca the flattening to `(N, M)`, the loop over components and the reshape to
`Y + (2,)`) agrees entry by entry with the one-component, one-alpha model `bootstrapCI`, for every
metric shape `Y` and alpha shape `A` (any ranks).  Hence every one-component theorem of
`C13.lean` / `C13Nested.lean` holds for every entry; "independent per component" and two lifted
instances are stated explicitly.  Two seeded changes of exactly this bookkeeping (C13_4: `swapaxes`
for `moveaxis`; C14_6: no axis move before the final reshape) are shown to differ on concrete
kernel-checked inputs.
-/
import SA.Proofs.NdArray
import SA.Model.BootstrapVec
import SA.Theorems.C13

namespace SA
open Spec.C13

/-- the `k`-th limit of a `(lower, upper)` pair -/
def limitK (k : ℕ) (p : Option ℚ × Option ℚ) : Option ℚ := if k = 0 then p.1 else p.2

/-- `alpha_joint = np.stack([alpha / 2, 1 - alpha / 2], axis=0)` -/
def alphaJointOf (alpha : Nd ℚ) : Nd ℚ :=
  Nd.ofFn [2, alpha.size] fun idx =>
    (([alpha.ravel.map (· / 2), alpha.ravel.map (1 - · / 2)] : List (Nd ℚ)).getD (idx.headD 0)
      (alpha.ravel.map (· / 2))).get idx.tail

theorem stack0_alpha (alpha : Nd ℚ) :
    stack0 [alpha.ravel.map (· / 2), alpha.ravel.map (1 - · / 2)] = .ok (alphaJointOf alpha) := by
  simp [stack0, alphaJointOf, Nd.map, Nd.ravel]

theorem alphaJoint_get (alpha : Nd ℚ) (hw : alpha.WF) (k z : ℕ) (hk : k < 2) (hz : z < alpha.size) :
    (alphaJointOf alpha).get [k, z] =
      if k = 0 then alpha.data.getD z 0 / 2 else 1 - alpha.data.getD z 0 / 2 := by
  have hin : InRange [2, alpha.size] [k, z] := by simp [InRange, hk, hz]
  unfold alphaJointOf
  rw [Nd.ofFn_get _ hin]
  have hz' : z < alpha.data.length := by rw [hw]; exact hz
  rcases (by omega : k = 0 ∨ k = 1) with rfl | rfl
  · simp [Nd.get, Nd.map, Nd.ravel, flatIndex, shapeProd, List.getD_eq_getElem?_getD, hz']
  · simp [Nd.get, Nd.map, Nd.ravel, flatIndex, shapeProd, List.getD_eq_getElem?_getD, hz']


theorem alphaJoint_valid (alpha : Nd ℚ) (hw : alpha.WF)
    (hal : ∀ x ∈ alpha.data, 0 ≤ x ∧ x ≤ 2) :
    (alphaJointOf alpha).data.all (fun x => decide (0 ≤ x) && decide (x ≤ 1)) = true := by
  rw [List.all_eq_true]
  intro x hx
  obtain ⟨i, hi, hxi⟩ := Nd.mem_ofFn_data hx
  match i, hi with
  | [k, z], hi =>
    simp only [InRange, and_true] at hi
    have hg := alphaJoint_get alpha hw k z hi.1 hi.2
    have hz' : z < alpha.data.length := by rw [hw]; exact hi.2
    have hm : alpha.data.getD z 0 ∈ alpha.data := by
      rw [List.getD_eq_getElem?_getD, List.getElem?_eq_getElem hz']; exact List.getElem_mem hz'
    have hb := hal _ hm
    have hx' : x = (alphaJointOf alpha).get [k, z] := by
      rw [hxi]; unfold alphaJointOf; rw [Nd.ofFn_get _ (by simp [InRange, hi.1, hi.2])]
    rw [hx', hg]
    simp only [Bool.and_eq_true, decide_eq_true_eq]
    split <;> constructor <;> linarith

theorem alphaJoint_nonempty (alpha : Nd ℚ) (hne : alpha.size ≠ 0) :
    (alphaJointOf alpha).data.isEmpty = false := by
  simp [alphaJointOf, Nd.ofFn, shapeProd, hne]

/-- the first two array statements of the quantile branch: `np.nanquantile` followed by the
reshape that undoes NumPy's short-circuit for a zero-size `theta` -/
theorem quantile_steps12 (theta : Nd (Option ℚ)) (alpha : Nd ℚ) (N : ℕ) (Y : List ℕ)
    (hsh : theta.shape = N :: Y) (hN : N ≠ 0 ∨ shapeProd Y = 0) (hw : alpha.WF)
    (hne : alpha.size ≠ 0) (hal : ∀ x ∈ alpha.data, 0 ≤ x ∧ x ≤ 2) :
    (npNanquantileAxis0 theta (alphaJointOf alpha) >>= fun ci =>
      ci.reshape ((alphaJointOf alpha).shape ++ theta.shape.tail)) =
      .ok (nanquantileAxis0 theta (alphaJointOf alpha)) := by
  unfold npNanquantileAxis0
  rw [if_neg (by simp [alphaJoint_nonempty alpha hne]),
    if_neg (by simp only [alphaJoint_valid alpha hw hal]; simp),
    if_neg (by rw [hsh]; simp)]
  have hsz : theta.size = N * shapeProd Y := by simp [Nd.size, hsh, shapeProd]
  have hshape : (alphaJointOf alpha).shape = [2, alpha.size] := rfl
  by_cases h0 : theta.size = 0
  · rw [if_pos h0]
    have hP : shapeProd Y = 0 := by
      rcases hN with hN | hN
      · rw [hsz] at h0; rcases Nat.mul_eq_zero.mp h0 with h | h
        · exact absurd h hN
        · exact h
      · exact hN
    simp only [bind, Except.bind, Nd.reshape, Nd.size, hsh, List.tail_cons, hshape,
      shapeProd_append, hP, Nat.mul_zero, if_true, List.replicate_zero]
    unfold nanquantileAxis0
    congr 1
    rw [Nd.ofFn]
    simp [hsh, hshape, shapeProd, hP, Nd.size]
  · rw [if_neg h0]
    simp only [bind, Except.bind, Nd.reshape]
    rw [if_pos (by unfold nanquantileAxis0; rw [Nd.ofFn_size])]
    rfl


theorem c13v_except_bind_eq_ok {ε α β : Type} {x : Except ε α} {f : α → Except ε β} {b : β}
    (h : x >>= f = .ok b) : ∃ a, x = .ok a ∧ f a = .ok b := by
  cases x with
  | error e => simp [bind, Except.bind] at h
  | ok a => exact ⟨a, rfl, h⟩

/-- the axis order the code hands to `transpose`: metric axes first, then `Z'`, then lower/upper -/
def leadPerm (Y : List ℕ) : List ℕ := (List.range Y.length).map (· + 2) ++ [1, 0]

/-- **the quantile branch in closed form**: the buffer of the result is the buffer of the
transposed `(2, Z', *Y)` quantile array, relabelled with the shape `Y + A + (2,)`. -/
theorem bootstrapCIVec_quantile_eq (nrm : Normal) (p15 : ℚ → ℚ) (theta : Nd (Option ℚ))
    (thetaHat : Option (Nd ℚ)) (alpha : Nd ℚ) (N : ℕ) (Y : List ℕ)
    (hsh : theta.shape = N :: Y) (hN : N ≠ 0 ∨ shapeProd Y = 0) (hw : alpha.WF)
    (hne : alpha.size ≠ 0) (hal : ∀ x ∈ alpha.data, 0 ≤ x ∧ x ≤ 2) :
    bootstrapCIVec nrm p15 .quantile theta thetaHat alpha =
      .ok ⟨Y ++ alpha.shape ++ [2],
        ((nanquantileAxis0 theta (alphaJointOf alpha)).transpose (leadPerm Y)).data⟩ := by
  obtain ⟨c, hc1, hc2⟩ := c13v_except_bind_eq_ok (quantile_steps12 theta alpha N Y hsh hN hw hne hal)
  have hqs : (nanquantileAxis0 theta (alphaJointOf alpha)).shape = 2 :: alpha.size :: Y := by
    simp [nanquantileAxis0, Nd.ofFn, alphaJointOf, hsh]
  have hmv := moveaxis_lead2 (nanquantileAxis0 theta (alphaJointOf alpha)) 2 alpha.size Y hqs
  have htsh := transpose_lead2_shape (nanquantileAxis0 theta (alphaJointOf alpha)) 2 alpha.size Y hqs
  unfold bootstrapCIVec
  simp only [stack0_alpha, bind, Except.bind, hc1, hc2, hmv]
  unfold Nd.reshape
  rw [if_pos]
  · simp [hsh, leadPerm]
  · simp only [Nd.size, hsh, List.tail_cons, htsh, shapeProd_append, shapeProd]
    ring


theorem nanquantile_get (theta : Nd (Option ℚ)) (q : Nd ℚ) (qi y : List ℕ)
    (hq : InRange q.shape qi) (hy : InRange theta.shape.tail y) :
    (nanquantileAxis0 theta q).get (qi ++ y) = quantileLinear (theta.column y) (q.get qi) := by
  unfold nanquantileAxis0
  rw [Nd.ofFn_get _ (inRange_append hq hy)]
  have hl := hq.length_eq
  rw [← hl]; simp

/-- **C13 (vectorised, quantile method).** For every metric shape `Y`, alpha shape `A`, the result
of the whole-array computation has shape `Y + A + (2,)` and a full buffer, and its entry
`[y..., a..., k]` is the `k`-th limit of the one-component formula `bootstrapCI .quantile`
applied to the replicates `theta[:, y...]` at level `alpha[a...]`. -/
theorem C13_vec_quantile (nrm : Normal) (p15 : ℚ → ℚ) (theta : Nd (Option ℚ))
    (thetaHat : Option (Nd ℚ)) (alpha : Nd ℚ) (N : ℕ) (Y : List ℕ)
    (hsh : theta.shape = N :: Y) (hN : N ≠ 0 ∨ shapeProd Y = 0) (hw : alpha.WF)
    (hne : alpha.size ≠ 0) (hal : ∀ x ∈ alpha.data, 0 ≤ x ∧ x ≤ 2) :
    ∃ r, bootstrapCIVec nrm p15 .quantile theta thetaHat alpha = .ok r ∧
      r.shape = Y ++ alpha.shape ++ [2] ∧ r.WF ∧
      ∀ (y a : List ℕ) (k : ℕ) (th : ℚ), InRange Y y → InRange alpha.shape a → k < 2 →
        r.get (y ++ a ++ [k]) =
          limitK k (bootstrapCI nrm p15 .quantile (theta.column y) th (alpha.get a)) := by
  refine ⟨_, bootstrapCIVec_quantile_eq nrm p15 theta thetaHat alpha N Y hsh hN hw hne hal, rfl, ?_, ?_⟩
  · have hqs : (nanquantileAxis0 theta (alphaJointOf alpha)).shape = 2 :: alpha.size :: Y := by
      simp [nanquantileAxis0, Nd.ofFn, alphaJointOf, hsh]
    have htsh := transpose_lead2_shape _ 2 alpha.size Y hqs
    have hwf : ((nanquantileAxis0 theta (alphaJointOf alpha)).transpose (leadPerm Y)).WF :=
      Nd.ofFn_wf _ _
    unfold Nd.WF at hwf ⊢
    rw [hwf]
    show shapeProd ((nanquantileAxis0 theta (alphaJointOf alpha)).transpose (leadPerm Y)).shape = _
    unfold leadPerm
    rw [htsh]
    simp only [shapeProd_append, shapeProd, Nd.size]; ring
  · intro y a k th hy ha hk
    have hqs : (nanquantileAxis0 theta (alphaJointOf alpha)).shape = 2 :: alpha.size :: Y := by
      simp [nanquantileAxis0, Nd.ofFn, alphaJointOf, hsh]
    have hfa : flatIndex alpha.shape a < alpha.size := flatIndex_lt ha
    have htg := transpose_lead2_get _ 2 alpha.size Y hqs y (flatIndex alpha.shape a) k hy hfa hk
    have htsh := transpose_lead2_shape _ 2 alpha.size Y hqs
    -- the flat position in the `Y + A + (2,)` labelling is the flat position in `Y + (Z', 2)`
    have hflat : flatIndex (Y ++ alpha.shape ++ [2]) (y ++ a ++ [k]) =
        flatIndex (Y ++ [alpha.size, 2]) (y ++ [flatIndex alpha.shape a, k]) := by
      rw [List.append_assoc, List.append_assoc, flatIndex_append _ _ _ _ hy.length_eq,
        flatIndex_append _ _ _ _ ha.length_eq, flatIndex_append _ _ _ _ hy.length_eq]
      simp only [shapeProd_append, shapeProd, flatIndex, Nd.size]
    have hget : (⟨Y ++ alpha.shape ++ [2],
        ((nanquantileAxis0 theta (alphaJointOf alpha)).transpose (leadPerm Y)).data⟩ :
          Nd (Option ℚ)).get (y ++ a ++ [k]) =
        ((nanquantileAxis0 theta (alphaJointOf alpha)).transpose (leadPerm Y)).get
          (y ++ [flatIndex alpha.shape a, k]) := by
      unfold Nd.get
      show List.getD _ (flatIndex (Y ++ alpha.shape ++ [2]) (y ++ a ++ [k])) _ = _
      rw [hflat]
      unfold leadPerm
      rw [htsh]
    rw [hget]
    unfold leadPerm
    rw [htg]
    have hng := nanquantile_get theta (alphaJointOf alpha) [k, flatIndex alpha.shape a] y
      (by simp [alphaJointOf, Nd.ofFn, InRange, hk, hfa]) (by rw [hsh]; exact hy)
    have e : k :: flatIndex alpha.shape a :: y = [k, flatIndex alpha.shape a] ++ y := rfl
    rw [e, hng, alphaJoint_get alpha hw k _ hk hfa, C13_quantile_levels]
    have hag : alpha.get a = alpha.data.getD (flatIndex alpha.shape a) 0 := rfl
    rw [hag]
    unfold limitK
    split <;> rfl


theorem reshapeInfer_lead {α : Type} (a : Nd α) (N : ℕ) (Y : List ℕ) (hsh : a.shape = N :: Y)
    (hN : N ≠ 0) : a.reshapeInfer N = .ok ⟨[N, shapeProd Y], a.data⟩ := by
  have hdiv : N * shapeProd Y / N = shapeProd Y := Nat.mul_div_cancel_left _ (Nat.pos_of_ne_zero hN)
  simp [Nd.reshapeInfer, hN, Nd.size, hsh, shapeProd, hdiv]

theorem reshapeInfer_one {α : Type} (a : Nd α) : a.reshapeInfer 1 = .ok ⟨[1, a.size], a.data⟩ := by
  simp [Nd.reshapeInfer, Nat.mod_one]

theorem bcRows_size (nrm : Normal) (p15 : ℚ → ℚ) (m : BootMethod) (t : Nd (Option ℚ)) (h : Nd ℚ)
    (al : ℚ) (M : ℕ) : (bcRows nrm p15 m t h al M).size = M * 2 := by
  simp [bcRows, Nd.ofFn_size, shapeProd]

/-- **the bc / bca branch in closed form** -/
theorem bootstrapCIVec_bc_eq (nrm : Normal) (p15 : ℚ → ℚ) (m : BootMethod) (hm : m ≠ .quantile)
    (theta : Nd (Option ℚ)) (thetaHat : Nd ℚ) (alpha : Nd ℚ) (al : ℚ) (N : ℕ) (Y : List ℕ)
    (hsh : theta.shape = N :: Y) (hN : N ≠ 0) (hth : thetaHat.shape = Y) (hal : alpha.data = [al]) :
    bootstrapCIVec nrm p15 m theta (some thetaHat) alpha =
      .ok ⟨Y ++ [2], (bcRows nrm p15 m ⟨[N, shapeProd Y], theta.data⟩
        ⟨[1, shapeProd Y], thetaHat.data⟩ al (shapeProd Y)).data⟩ := by
  have h1 := reshapeInfer_lead theta N Y hsh hN
  have h2 : thetaHat.newaxis0.reshapeInfer 1 = .ok ⟨[1, shapeProd Y], thetaHat.data⟩ := by
    rw [reshapeInfer_one]; simp [Nd.newaxis0, Nd.size, shapeProd, hth]
  have h3 : (⟨[1, shapeProd Y], thetaHat.data⟩ : Nd ℚ).size = shapeProd Y := by
    simp [Nd.size, shapeProd]
  have h4 : ∀ c : Nd (Option ℚ), c.size = shapeProd Y * 2 →
      c.reshape (Y ++ [2]) = .ok ⟨Y ++ [2], c.data⟩ := by
    intro c hc
    simp [Nd.reshape, hc, shapeProd_append, shapeProd]
  unfold bootstrapCIVec
  cases m with
  | quantile => exact absurd rfl hm
  | bc =>
    simp only [hsh, bind, Except.bind, h1, h2, h3, Nd.ravel, hal, List.getD_cons_succ,
      List.getD_cons_zero, ne_eq, not_true_eq_false, if_false]
    exact h4 _ (bcRows_size ..)
  | bca =>
    simp only [hsh, bind, Except.bind, h1, h2, h3, Nd.ravel, hal, List.getD_cons_succ,
      List.getD_cons_zero, ne_eq, not_true_eq_false, if_false]
    exact h4 _ (bcRows_size ..)


/-- column `[j]` of the flattened `(N, M)` array is column `y` of the original, `j` the row-major
position of `y` in the metric shape -/
theorem column_flatten {α : Type} [Inhabited α] (theta : Nd α) (N : ℕ) (Y y : List ℕ)
    (hsh : theta.shape = N :: Y) :
    (⟨[N, shapeProd Y], theta.data⟩ : Nd α).column [flatIndex Y y] = theta.column y := by
  simp [Nd.column, Nd.get, hsh, flatIndex, shapeProd]

/-- **C13 (vectorised, bc / bca, scalar alpha).** The result has shape `Y + (2,)`, a full buffer,
and its entry `[y..., k]` is the `k`-th limit of the one-component formula on the replicates
`theta[:, y...]` with the estimate `theta_hat[y...]`. -/
theorem C13_vec_bc (nrm : Normal) (p15 : ℚ → ℚ) (m : BootMethod) (hm : m ≠ .quantile)
    (theta : Nd (Option ℚ)) (thetaHat : Nd ℚ) (alpha : Nd ℚ) (al : ℚ) (N : ℕ) (Y : List ℕ)
    (hsh : theta.shape = N :: Y) (hN : N ≠ 0) (hth : thetaHat.shape = Y) (hal : alpha.data = [al]) :
    ∃ r, bootstrapCIVec nrm p15 m theta (some thetaHat) alpha = .ok r ∧
      r.shape = Y ++ [2] ∧ r.WF ∧
      ∀ (y : List ℕ) (k : ℕ), InRange Y y → k < 2 →
        r.get (y ++ [k]) =
          limitK k (bootstrapCI nrm p15 m (theta.column y) (thetaHat.get y) al) := by
  refine ⟨_, bootstrapCIVec_bc_eq nrm p15 m hm theta thetaHat alpha al N Y hsh hN hth hal, rfl, ?_, ?_⟩
  · have hwf : (bcRows nrm p15 m ⟨[N, shapeProd Y], theta.data⟩
        ⟨[1, shapeProd Y], thetaHat.data⟩ al (shapeProd Y)).WF := Nd.ofFn_wf _ _
    unfold Nd.WF at hwf ⊢
    rw [hwf]
    simp [bcRows, Nd.ofFn_shape, shapeProd_append, shapeProd]
  · intro y k hy hk
    have hfy := flatIndex_lt hy
    have hflat : flatIndex (Y ++ [2]) (y ++ [k]) = flatIndex [shapeProd Y, 2] [flatIndex Y y, k] := by
      rw [flatIndex_append _ _ _ _ hy.length_eq]; simp [flatIndex, shapeProd]
    have hget : (⟨Y ++ [2], (bcRows nrm p15 m ⟨[N, shapeProd Y], theta.data⟩
        ⟨[1, shapeProd Y], thetaHat.data⟩ al (shapeProd Y)).data⟩ : Nd (Option ℚ)).get (y ++ [k]) =
        (bcRows nrm p15 m ⟨[N, shapeProd Y], theta.data⟩
          ⟨[1, shapeProd Y], thetaHat.data⟩ al (shapeProd Y)).get [flatIndex Y y, k] := by
      unfold Nd.get
      show List.getD _ (flatIndex (Y ++ [2]) (y ++ [k])) _ = _
      rw [hflat]; rfl
    rw [hget]
    unfold bcRows
    rw [Nd.ofFn_get _ (by simp [InRange, hfy, hk])]
    simp only [List.headD_cons, List.getD_cons_succ, List.getD_cons_zero]
    rw [column_flatten theta N Y y hsh]
    have hth' : (⟨[1, shapeProd Y], thetaHat.data⟩ : Nd ℚ).get [0, flatIndex Y y] = thetaHat.get y := by
      simp [Nd.get, flatIndex, shapeProd, hth]
    rw [hth']
    rfl

/-- bc / bca without the estimate: `ValueError("Must provide theta_hat ...")` -/
theorem C13_vec_bc_needs_estimate (nrm : Normal) (p15 : ℚ → ℚ) (m : BootMethod) (hm : m ≠ .quantile)
    (theta : Nd (Option ℚ)) (alpha : Nd ℚ) :
    bootstrapCIVec nrm p15 m theta none alpha = .error .valueError := by
  cases m with
  | quantile => exact absurd rfl hm
  | bc => rfl
  | bca => rfl

/-- **C13 (independent per component).** Two replicate arrays of the same shape that agree on the
replicates of component `y` give the same limits for component `y` (all alphas, both limits),
whatever the other components contain. -/
theorem C13_vec_independent_quantile (nrm : Normal) (p15 : ℚ → ℚ) (theta theta' : Nd (Option ℚ))
    (thetaHat : Option (Nd ℚ)) (alpha : Nd ℚ) (N : ℕ) (Y : List ℕ)
    (hsh : theta.shape = N :: Y) (hsh' : theta'.shape = N :: Y) (hN : N ≠ 0 ∨ shapeProd Y = 0)
    (hw : alpha.WF) (hne : alpha.size ≠ 0) (hal : ∀ x ∈ alpha.data, 0 ≤ x ∧ x ≤ 2)
    (y : List ℕ) (hy : InRange Y y) (hcol : theta.column y = theta'.column y) :
    ∃ r r', bootstrapCIVec nrm p15 .quantile theta thetaHat alpha = .ok r ∧
      bootstrapCIVec nrm p15 .quantile theta' thetaHat alpha = .ok r' ∧
      ∀ (a : List ℕ) (k : ℕ), InRange alpha.shape a → k < 2 →
        r.get (y ++ a ++ [k]) = r'.get (y ++ a ++ [k]) := by
  obtain ⟨r, hr, _, _, hg⟩ := C13_vec_quantile nrm p15 theta thetaHat alpha N Y hsh hN hw hne hal
  obtain ⟨r', hr', _, _, hg'⟩ := C13_vec_quantile nrm p15 theta' thetaHat alpha N Y hsh' hN hw hne hal
  refine ⟨r, r', hr, hr', ?_⟩
  intro a k ha hk
  rw [hg y a k 0 hy ha hk, hg' y a k 0 hy ha hk, hcol]

theorem C13_vec_independent_bc (nrm : Normal) (p15 : ℚ → ℚ) (m : BootMethod) (hm : m ≠ .quantile)
    (theta theta' : Nd (Option ℚ)) (thetaHat thetaHat' : Nd ℚ) (alpha : Nd ℚ) (al : ℚ) (N : ℕ)
    (Y : List ℕ) (hsh : theta.shape = N :: Y) (hsh' : theta'.shape = N :: Y) (hN : N ≠ 0)
    (hth : thetaHat.shape = Y) (hth' : thetaHat'.shape = Y) (hal : alpha.data = [al])
    (y : List ℕ) (hy : InRange Y y) (hcol : theta.column y = theta'.column y)
    (hest : thetaHat.get y = thetaHat'.get y) :
    ∃ r r', bootstrapCIVec nrm p15 m theta (some thetaHat) alpha = .ok r ∧
      bootstrapCIVec nrm p15 m theta' (some thetaHat') alpha = .ok r' ∧
      ∀ k : ℕ, k < 2 → r.get (y ++ [k]) = r'.get (y ++ [k]) := by
  obtain ⟨r, hr, _, _, hg⟩ := C13_vec_bc nrm p15 m hm theta thetaHat alpha al N Y hsh hN hth hal
  obtain ⟨r', hr', _, _, hg'⟩ := C13_vec_bc nrm p15 m hm theta' thetaHat' alpha al N Y hsh' hN hth' hal
  refine ⟨r, r', hr, hr', ?_⟩
  intro k hk
  rw [hg y k hy hk, hg' y k hy hk, hcol, hest]


/-! ### the one-component theorems lift to every entry -/

/-- **C13 (vectorised, ordered).** Quantile method, every alpha in [0, 1]: in every slice
`[y..., a..., :]` the lower limit is at most the upper one (or both are NaN). -/
theorem C13_vec_ordered_quantile (nrm : Normal) (p15 : ℚ → ℚ) (theta : Nd (Option ℚ))
    (thetaHat : Option (Nd ℚ)) (alpha : Nd ℚ) (N : ℕ) (Y : List ℕ)
    (hsh : theta.shape = N :: Y) (hN : N ≠ 0 ∨ shapeProd Y = 0) (hw : alpha.WF)
    (hne : alpha.size ≠ 0) (hal : ∀ x ∈ alpha.data, 0 ≤ x ∧ x ≤ 1) :
    ∃ r, bootstrapCIVec nrm p15 .quantile theta thetaHat alpha = .ok r ∧
      ∀ (y a : List ℕ), InRange Y y → InRange alpha.shape a →
        optLe (r.get (y ++ a ++ [0])) (r.get (y ++ a ++ [1])) := by
  obtain ⟨r, hr, _, _, hg⟩ := C13_vec_quantile nrm p15 theta thetaHat alpha N Y hsh hN hw hne
    (fun x hx => ⟨(hal x hx).1, by linarith [(hal x hx).2]⟩)
  refine ⟨r, hr, ?_⟩
  intro y a hy ha
  rw [hg y a 0 0 hy ha (by omega), hg y a 1 0 hy ha (by omega)]
  have hlt : flatIndex alpha.shape a < alpha.data.length := by rw [hw]; exact flatIndex_lt ha
  have hm : alpha.get a ∈ alpha.data := by
    unfold Nd.get
    rw [List.getD_eq_getElem?_getD, List.getElem?_eq_getElem hlt]; exact List.getElem_mem hlt
  exact C13_ordered_quantile nrm p15 _ 0 _ (hal _ hm).1 (hal _ hm).2

/-- **C13 (vectorised, range).** Every defined entry lies within the range of the finite replicates
of its own component; an entry is NaN exactly when that component has no finite replicate. -/
theorem C13_vec_in_range_quantile (nrm : Normal) (p15 : ℚ → ℚ) (theta : Nd (Option ℚ))
    (thetaHat : Option (Nd ℚ)) (alpha : Nd ℚ) (N : ℕ) (Y : List ℕ)
    (hsh : theta.shape = N :: Y) (hN : N ≠ 0 ∨ shapeProd Y = 0) (hw : alpha.WF)
    (hne : alpha.size ≠ 0) (hal : ∀ x ∈ alpha.data, 0 ≤ x ∧ x ≤ 2) :
    ∃ r, bootstrapCIVec nrm p15 .quantile theta thetaHat alpha = .ok r ∧
      ∀ (y a : List ℕ) (k : ℕ), InRange Y y → InRange alpha.shape a → k < 2 →
        match r.get (y ++ a ++ [k]) with
        | none => (theta.column y).filterMap id = []
        | some v => (∃ lo ∈ (theta.column y).filterMap id, lo ≤ v) ∧
            (∃ hi ∈ (theta.column y).filterMap id, v ≤ hi) := by
  obtain ⟨r, hr, _, _, hg⟩ := C13_vec_quantile nrm p15 theta thetaHat alpha N Y hsh hN hw hne hal
  refine ⟨r, hr, ?_⟩
  intro y a k hy ha hk
  rw [hg y a k 0 hy ha hk, C13_quantile_levels]
  by_cases hk0 : k = 0
  · simp only [limitK, hk0, if_true]; exact C13_in_range _ _
  · simp only [limitK, hk0, if_false]; exact C13_in_range _ _

/-! ### the error branches of the quantile method -/

/-- an empty `alpha`: `np.nanquantile` raises (reduction of a zero-size array) -/
theorem C13_vec_quantile_empty_alpha (nrm : Normal) (p15 : ℚ → ℚ) (theta : Nd (Option ℚ))
    (thetaHat : Option (Nd ℚ)) (alpha : Nd ℚ) (h0 : alpha.size = 0) :
    bootstrapCIVec nrm p15 .quantile theta thetaHat alpha = .error .valueError := by
  unfold bootstrapCIVec
  have : (alphaJointOf alpha).data.isEmpty = true := by
    simp [alphaJointOf, Nd.ofFn, shapeProd, h0]
  simp only [stack0_alpha, bind, Except.bind, npNanquantileAxis0, this, if_true]

/-- no replicate at all but a non-empty metric shape: NumPy's short-circuited all-NaN result of
shape `Y` cannot be reshaped to `(2, Z') + Y` — ValueError -/
theorem C13_vec_quantile_no_replicates (nrm : Normal) (p15 : ℚ → ℚ) (theta : Nd (Option ℚ))
    (thetaHat : Option (Nd ℚ)) (alpha : Nd ℚ) (Y : List ℕ) (hsh : theta.shape = 0 :: Y)
    (hP : shapeProd Y ≠ 0) (hw : alpha.WF) (hne : alpha.size ≠ 0)
    (hal : ∀ x ∈ alpha.data, 0 ≤ x ∧ x ≤ 2) :
    bootstrapCIVec nrm p15 .quantile theta thetaHat alpha = .error .valueError := by
  unfold bootstrapCIVec
  have hsz : theta.size = 0 := by simp [Nd.size, hsh, shapeProd]
  have hshape : (alphaJointOf alpha).shape = [2, alpha.size] := rfl
  have hne' : ¬ shapeProd ([2, alpha.size] ++ Y) = shapeProd Y := by
    simp only [shapeProd_append, shapeProd, Nat.mul_one]
    intro h
    have h1 : 1 ≤ alpha.size := Nat.pos_of_ne_zero hne
    have h2 : 1 ≤ shapeProd Y := Nat.pos_of_ne_zero hP
    nlinarith
  simp only [stack0_alpha, bind, Except.bind, npNanquantileAxis0, alphaJoint_nonempty alpha hne,
    alphaJoint_valid alpha hw hal, hsh, hshape, List.tail_cons]
  rw [if_neg (by simp), if_neg (by simp), if_neg (by simp), if_pos hsz]
  simp only [Nd.reshape]
  rw [if_neg (by simpa [Nd.size] using hne')]


theorem Nd.get_mem {α : Type} [Inhabited α] (a : Nd α) (hw : a.WF) (i : List ℕ)
    (hi : InRange a.shape i) : a.get i ∈ a.data := by
  have hlt : flatIndex a.shape i < a.data.length := by rw [hw]; exact flatIndex_lt hi
  unfold Nd.get
  rw [List.getD_eq_getElem?_getD, List.getElem?_eq_getElem hlt]; exact List.getElem_mem hlt

/-- a level outside [0, 1] (`alpha < 0` or `alpha > 2`): "Quantiles must be in the range [0, 1]" -/
theorem C13_vec_quantile_bad_level (nrm : Normal) (p15 : ℚ → ℚ) (theta : Nd (Option ℚ))
    (thetaHat : Option (Nd ℚ)) (alpha : Nd ℚ) (hw : alpha.WF) (x : ℚ) (hx : x ∈ alpha.data)
    (hbad : x < 0 ∨ 2 < x) :
    bootstrapCIVec nrm p15 .quantile theta thetaHat alpha = .error .valueError := by
  obtain ⟨z, hz, rfl⟩ := List.getElem_of_mem hx
  have hz' : z < alpha.size := by unfold Nd.size; rw [← hw]; exact hz
  have hne : alpha.size ≠ 0 := by omega
  have hgz : alpha.data.getD z 0 = alpha.data[z] := by
    rw [List.getD_eq_getElem?_getD, List.getElem?_eq_getElem hz]; rfl
  have hinv : (alphaJointOf alpha).data.all (fun x => decide (0 ≤ x) && decide (x ≤ 1)) = false := by
    rw [Bool.eq_false_iff]
    intro hall
    rw [List.all_eq_true] at hall
    rcases hbad with hb | hb
    · have hm := Nd.get_mem (alphaJointOf alpha) (Nd.ofFn_wf _ _) [0, z]
        (by simp [alphaJointOf, Nd.ofFn, InRange, hz'])
      have := hall _ hm
      rw [alphaJoint_get alpha hw 0 z (by omega) hz', hgz] at this
      simp only [if_true, Bool.and_eq_true, decide_eq_true_eq] at this
      linarith [this.1]
    · have hm := Nd.get_mem (alphaJointOf alpha) (Nd.ofFn_wf _ _) [1, z]
        (by simp [alphaJointOf, Nd.ofFn, InRange, hz'])
      have := hall _ hm
      rw [alphaJoint_get alpha hw 1 z (by omega) hz', hgz] at this
      simp only [one_ne_zero, if_false, Bool.and_eq_true, decide_eq_true_eq] at this
      linarith [this.1]
  unfold bootstrapCIVec
  simp only [stack0_alpha, bind, Except.bind, npNanquantileAxis0, alphaJoint_nonempty alpha hne, hinv]
  simp


/-! ### the two seeded changes of the bookkeeping are excluded -/

/-- seeded change C13_4: lower / upper quantiles separately, `np.stack(axis=-1)` to `(Z', *Y, 2)`,
then `np.swapaxes(ci, 0, 1)` instead of moving the alpha axis behind ALL metric axes -/
def variantSwapaxes (theta : Nd (Option ℚ)) (alpha : Nd ℚ) : Except Err (Nd (Option ℚ)) := do
  let a := alpha.ravel
  let lo := nanquantileAxis0 theta (a.map (· / 2))       -- (Z', *Y)
  let hi := nanquantileAxis0 theta (a.map (1 - · / 2))   -- (Z', *Y)
  let ci ← stackLast [lo, hi]                            -- (Z', *Y, 2)
  let ci ← ci.swapaxes01
  ci.reshape (theta.shape.tail ++ alpha.shape ++ [2])

/-- seeded change C14_6: the same without any axis move: a `(Z', *Y, 2)` buffer relabelled as
`Y + A + (2,)` -/
def variantNoMove (theta : Nd (Option ℚ)) (alpha : Nd ℚ) : Except Err (Nd (Option ℚ)) := do
  let a := alpha.ravel
  let lo := nanquantileAxis0 theta (a.map (· / 2))       -- (Z', *Y)
  let hi := nanquantileAxis0 theta (a.map (1 - · / 2))   -- (Z', *Y)
  let ci ← stackLast [lo, hi]                            -- (Z', *Y, 2)
  ci.reshape (theta.shape.tail ++ alpha.shape ++ [2])

def c13v_entryIs (x : Except Err (Nd (Option ℚ))) (idx : List ℕ) (v : Option ℚ) : Bool :=
  match x with
  | .ok r => r.get idx == v
  | .error _ => false

/-- one replicate of a 2x2 metric `[[1, 2], [3, 4]]`, two alphas -/
def c13v_theta : Nd (Option ℚ) := ⟨[1, 2, 2], [some 1, some 2, some 3, some 4]⟩
def c13v_alpha : Nd ℚ := ⟨[2], [1 / 10, 1 / 2]⟩
/-- one replicate of a 2-vector metric `[1, 2]` -/
def c13v_theta1 : Nd (Option ℚ) := ⟨[1, 2], [some 1, some 2]⟩
def c13v_thetaHat : Nd ℚ := ⟨[2, 2], [1, 2, 3, 4]⟩
def c13v_alpha0 : Nd ℚ := ⟨[], [1 / 10]⟩

/-- the model: entry `[0, 1, a, k]` is component `[0, 1]` of the single replicate, i.e. 2 -/
theorem c13v_model_entry :
    c13v_entryIs (bootstrapCIVec Normal.toy id .quantile c13v_theta none c13v_alpha) [0, 1, 0, 0] (some 2)
      = true := by decide +kernel

/-- **C13_4 excluded**: with `swapaxes` the same entry is component `[0, 0]` (value 1) -/
theorem c13v_swapaxes_differs :
    c13v_entryIs (variantSwapaxes c13v_theta c13v_alpha) [0, 1, 0, 0] (some 1) = true ∧
    c13v_entryIs (bootstrapCIVec Normal.toy id .quantile c13v_theta none c13v_alpha) [0, 1, 0, 0] (some 1)
      = false := by
  constructor <;> decide +kernel

/-- **C14_6 excluded** (already for the documented `(N, Y)` layout with a vector alpha): without the
axis move entry `[0, 1, k]` (component 0, second alpha) is component 1 (value 2) instead of 1 -/
theorem c13v_nomove_differs :
    c13v_entryIs (variantNoMove c13v_theta1 c13v_alpha) [0, 1, 0] (some 2) = true ∧
    c13v_entryIs (bootstrapCIVec Normal.toy id .quantile c13v_theta1 none c13v_alpha) [0, 1, 0] (some 1)
      = true := by
  constructor <;> decide +kernel

/-! ### the hypotheses are satisfiable -/

/-- `C13_vec_quantile` / `_independent_quantile` / `_ordered_` / `_in_range_`: 2x2 metric, vector alpha -/
example :=
  C13_vec_quantile Normal.toy id c13v_theta none c13v_alpha 1 [2, 2] rfl (Or.inl (by decide))
    rfl (by decide) (by decide +kernel)

example : ∀ x ∈ c13v_alpha.data, 0 ≤ x ∧ x ≤ 1 := by decide +kernel

/-- `C13_vec_bc` / `_independent_bc`: 2x2 metric, scalar alpha, bc and bca -/
example :=
  C13_vec_bc Normal.toy id .bca (by decide) c13v_theta c13v_thetaHat c13v_alpha0 (1 / 10) 1 [2, 2]
    rfl (by decide) rfl rfl

/-- `C13_vec_quantile_no_replicates`: `theta` of shape `(0, 2)` -/
example : bootstrapCIVec Normal.toy id .quantile ⟨[0, 2], []⟩ none c13v_alpha = .error .valueError :=
  C13_vec_quantile_no_replicates Normal.toy id ⟨[0, 2], []⟩ none c13v_alpha [2] rfl (by decide)
    rfl (by decide) (by decide +kernel)

/-- `C13_vec_quantile_bad_level`: alpha = 5/2 -/
example : bootstrapCIVec Normal.toy id .quantile c13v_theta none ⟨[1], [5 / 2]⟩ = .error .valueError :=
  C13_vec_quantile_bad_level Normal.toy id c13v_theta none ⟨[1], [5 / 2]⟩ rfl (5 / 2)
    (by simp) (Or.inr (by decide +kernel))

/-- `C13_vec_quantile_empty_alpha` -/
example : bootstrapCIVec Normal.toy id .quantile c13v_theta none ⟨[0], []⟩ = .error .valueError :=
  C13_vec_quantile_empty_alpha Normal.toy id c13v_theta none ⟨[0], []⟩ rfl

end SA
