/-
C13 — the whole-array model passes the executable spec clauses of `SA/Spec/C13Vec.lean`
(`vecShapeOK`, `vecEntriesOK`) at tolerance 0: the array prescribed by the property, built directly
from the one-component formula, is exactly what the code-shaped model computes.
-/
import SA.Theorems.C13Vec
import SA.Spec.C13Vec
namespace SA
open Spec.C13

theorem Nd.ext_get {α : Type} [Inhabited α] (a b : Nd α) (hs : a.shape = b.shape) (ha : a.WF)
    (hb : b.WF) (h : ∀ i, InRange a.shape i → a.get i = b.get i) : a.data = b.data := by
  apply List.ext_getElem
  · rw [ha, hb, hs]
  · intro t h1 h2
    have ht : t < shapeProd a.shape := by rw [← ha]; exact h1
    have := h _ (unravel_inRange ht)
    unfold Nd.get at this
    rw [← hs, flatIndex_unravel ht, List.getD_eq_getElem?_getD, List.getD_eq_getElem?_getD,
      List.getElem?_eq_getElem h1, List.getElem?_eq_getElem h2] at this
    simpa using this

theorem c13v_nearO_refl (x : Option ℚ) : nearO 0 x x = true := by
  cases x <;> simp [nearO, absQ]

theorem c13v_vecEntriesOK_refl (e : Nd (Option ℚ)) : vecEntriesOK 0 e e.data = true := by
  simp only [vecEntriesOK, beq_self_eq_true, Bool.true_and, List.all_eq_true]
  intro p hp
  have : p.1 = p.2 := by
    rw [List.zip_eq_zipWith] at hp
    simp only [List.zipWith_self, List.mem_map] at hp
    obtain ⟨x, _, rfl⟩ := hp; rfl
  rcases p with ⟨p1, p2⟩
  simp only at this; subst this
  exact c13v_nearO_refl _

/-- **C13 (vectorised, spec form, quantile).** The whole-array model passes the executable
clauses `vecShapeOK` / `vecEntriesOK` at tolerance 0. -/
theorem C13_vec_spec_quantile (nrm : Normal) (p15 : ℚ → ℚ) (theta : Nd (Option ℚ))
    (thetaHat : Option (Nd ℚ)) (alpha : Nd ℚ) (N : ℕ) (Y : List ℕ)
    (hsh : theta.shape = N :: Y) (hN : N ≠ 0 ∨ shapeProd Y = 0) (hw : alpha.WF)
    (hne : alpha.size ≠ 0) (hal : ∀ x ∈ alpha.data, 0 ≤ x ∧ x ≤ 2) :
    ∃ r, bootstrapCIVec nrm p15 .quantile theta thetaHat alpha = .ok r ∧
      vecShapeOK (vecExpected nrm p15 .quantile theta thetaHat alpha) r.shape = true ∧
      vecEntriesOK 0 (vecExpected nrm p15 .quantile theta thetaHat alpha) r.data = true := by
  obtain ⟨r, hr, hs, hwf, hg⟩ := C13_vec_quantile nrm p15 theta thetaHat alpha N Y hsh hN hw hne hal
  have hes : (vecExpected nrm p15 .quantile theta thetaHat alpha).shape = Y ++ alpha.shape ++ [2] := by
    simp [vecExpected, Nd.ofFn, hsh]
  have hd : (vecExpected nrm p15 .quantile theta thetaHat alpha).data = r.data := by
    refine Nd.ext_get (vecExpected nrm p15 .quantile theta thetaHat alpha) r (by rw [hes, hs])
      (Nd.ofFn_wf _ _) hwf ?_
    intro i hi
    rw [hes] at hi
    -- decompose the multi-index
    obtain ⟨hya, hk⟩ := inRange_take_drop hi
    obtain ⟨hy, ha⟩ := inRange_take_drop hya
    set ya := i.take (Y ++ alpha.shape).length with hya_def
    set kk := i.drop (Y ++ alpha.shape).length with hkk_def
    have hi_eq : i = ya.take Y.length ++ ya.drop Y.length ++ kk := by
      rw [List.take_append_drop, hya_def, hkk_def, List.take_append_drop]
    match kk, hk with
    | [k], hk =>
      simp only [InRange, and_true] at hk
      rw [hi_eq, hg _ _ k 0 hy ha hk]
      unfold vecExpected
      simp only [hsh, List.tail_cons, if_true]
      rw [Nd.ofFn_get _ (inRange_append (inRange_append hy ha) (by simp [InRange, hk]))]
      have l1 := hy.length_eq
      have l2 := ha.length_eq
      simp only [limitK, limitOf]
      have t1 : (List.take Y.length ya ++ List.drop Y.length ya ++ [k]).take Y.length =
          List.take Y.length ya := by
        rw [List.append_assoc, List.take_left' l1]
      have t2 : ((List.take Y.length ya ++ List.drop Y.length ya ++ [k]).drop Y.length).take
          alpha.shape.length = List.drop Y.length ya := by
        rw [List.append_assoc, List.drop_left' l1, List.take_left' l2]
      have t3 : (List.take Y.length ya ++ List.drop Y.length ya ++ [k]).getLastD 0 = k := by simp
      rw [t1, t2, t3]
      simp only [C13_quantile_levels]
  refine ⟨r, hr, ?_, ?_⟩
  · simp [vecShapeOK, hes, hs]
  · rw [← hd]; exact c13v_vecEntriesOK_refl _

/-- **C13 (vectorised, spec form, bc / bca).** -/
theorem C13_vec_spec_bc (nrm : Normal) (p15 : ℚ → ℚ) (m : BootMethod) (hm : m ≠ .quantile)
    (theta : Nd (Option ℚ)) (thetaHat : Nd ℚ) (alpha : Nd ℚ) (al : ℚ) (N : ℕ) (Y : List ℕ)
    (hsh : theta.shape = N :: Y) (hN : N ≠ 0) (hth : thetaHat.shape = Y) (hal : alpha.data = [al]) :
    ∃ r, bootstrapCIVec nrm p15 m theta (some thetaHat) alpha = .ok r ∧
      vecShapeOK (vecExpected nrm p15 m theta (some thetaHat) alpha) r.shape = true ∧
      vecEntriesOK 0 (vecExpected nrm p15 m theta (some thetaHat) alpha) r.data = true := by
  obtain ⟨r, hr, hs, hwf, hg⟩ := C13_vec_bc nrm p15 m hm theta thetaHat alpha al N Y hsh hN hth hal
  have hes : (vecExpected nrm p15 m theta (some thetaHat) alpha).shape = Y ++ [2] := by
    simp [vecExpected, Nd.ofFn, hsh, hm]
  have hd : (vecExpected nrm p15 m theta (some thetaHat) alpha).data = r.data := by
    refine Nd.ext_get (vecExpected nrm p15 m theta (some thetaHat) alpha) r (by rw [hes, hs])
      (Nd.ofFn_wf _ _) hwf ?_
    intro i hi
    rw [hes] at hi
    obtain ⟨hy, hk⟩ := inRange_take_drop hi
    set y := i.take Y.length with hy_def
    set kk := i.drop Y.length with hkk_def
    have hi_eq : i = y ++ kk := by rw [hy_def, hkk_def, List.take_append_drop]
    match kk, hk with
    | [k], hk =>
      simp only [InRange, and_true] at hk
      rw [hi_eq, hg _ k hy hk]
      unfold vecExpected
      simp only [hsh, List.tail_cons, hm, if_false, List.append_nil]
      rw [Nd.ofFn_get _ (inRange_append hy (by simp [InRange, hk]))]
      have l1 := hy.length_eq
      simp only [limitK, limitOf, List.take_left' l1, hal, List.headD_cons]
      simp
  refine ⟨r, hr, ?_, ?_⟩
  · simp [vecShapeOK, hes, hs]
  · rw [← hd]; exact c13v_vecEntriesOK_refl _

/-- the hypotheses are satisfiable (same instances as in `C13Vec.lean`) -/
example :=
  C13_vec_spec_quantile Normal.toy id c13v_theta none c13v_alpha 1 [2, 2] rfl (Or.inl (by decide))
    rfl (by decide) (by decide +kernel)

example :=
  C13_vec_spec_bc Normal.toy id .bca (by decide) c13v_theta c13v_thetaHat c13v_alpha0 (1 / 10) 1
    [2, 2] rfl (by decide) rfl rfl

end SA
