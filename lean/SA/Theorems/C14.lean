/-
C14 — bootstrapped metrics / intervals are what the sampler and the CI formula produce.

`sampler j` is the j-th sample handed out by the configured sampler, `metric` the (name-resolved,
kwargs-applied) metric flattened to components, `original` the object itself.
What is NOT proved here (it is observed by the correspondence run on every check): Python
attribute resolution (`getattr(type(self), name)`), keyword forwarding, NumPy RNG determinism.
-/
import SA.Proofs.BootMetric
import SA.Theorems.C13

namespace SA
open Spec.C13 Spec.C14

variable {σ : Type}

/-- **C14 (rows).** `bootstrap_metric` returns `nb` rows; row `j` is the metric of the `j`-th
sample; when the metric has a constant number `n` of components every row has `n` components. -/
theorem C14_rows (sampler : ℕ → σ) (metric : σ → List (Option ℚ)) (nb : ℕ) :
    (bootstrapMetric sampler metric nb).length = nb ∧
    (∀ j, j < nb → (bootstrapMetric sampler metric nb)[j]? = some (metric (sampler j))) ∧
    (∀ n, (∀ s, (metric s).length = n) → ∀ r ∈ bootstrapMetric sampler metric nb, r.length = n) := by
  refine ⟨c14_length_rows sampler metric nb, fun j hj => c14_row_get sampler metric nb j hj, ?_⟩
  intro n hn r hr
  obtain ⟨j, _, rfl⟩ := List.mem_map.mp hr
  exact hn _

/-- **C14 (rows, spec form).** The model's replicate matrix passes `rowsOK` (tolerance 0) against
"metric applied to sample `0, 1, ..., nb-1`". -/
theorem C14_rows_spec (sampler : ℕ → σ) (metric : σ → List (Option ℚ)) (nb : ℕ) :
    rowsOK 0 (bootstrapMetric sampler metric nb)
      ((List.range nb).map fun j => metric (sampler j)) = true :=
  c14_rowsOK_refl _

/-- **C14 (columns).** Column `k` of the replicate matrix lists component `k` of the metric of
sample `0, 1, ..., nb-1`. -/
theorem C14_column (sampler : ℕ → σ) (metric : σ → List (Option ℚ)) (nb k : ℕ) :
    column (bootstrapMetric sampler metric nb) k =
      (List.range nb).map fun j => (metric (sampler j)).getD k none :=
  c14_column_eq sampler metric nb k

/-- **C14 (CI).** `bootstrap_ci` has one interval per component of the point estimate
`metric original`, and component `k` (with a finite estimate `th`) is the C13 formula applied to
column `k` of the replicate matrix with `th` as the estimate. -/
theorem C14_ci (nrm : Normal) (p15 : ℚ → ℚ) (m : BootMethod) (sampler : ℕ → σ)
    (metric : σ → List (Option ℚ)) (original : σ) (nb : ℕ) (al : ℚ) :
    (bootstrapCIOf nrm p15 m sampler metric original nb al).length = (metric original).length ∧
    ∀ k th, (metric original)[k]? = some (some th) →
      (bootstrapCIOf nrm p15 m sampler metric original nb al)[k]? =
        some (bootstrapCI nrm p15 m (column (bootstrapMetric sampler metric nb) k) th al) := by
  constructor
  · simp [bootstrapCIOf]
  · intro k th hk
    have hlt : k < (metric original).length := by
      rcases Nat.lt_or_ge k (metric original).length with h | h
      · exact h
      · rw [List.getElem?_eq_none h] at hk; cases hk
    have hget : (metric original).getD k none = some th := by
      simp [List.getD_eq_getElem?_getD, hk]
    simp only [bootstrapCIOf, List.getElem?_map, List.getElem?_range hlt, Option.map_some, hget,
      ciComponent]

/-- **C14 (CI, quantile method).** For the quantile method the estimate plays no role: component
`k` is the pair of `al/2`, `1 - al/2` quantiles of column `k`, NaN estimate or not. -/
theorem C14_ci_quantile (nrm : Normal) (p15 : ℚ → ℚ) (sampler : ℕ → σ)
    (metric : σ → List (Option ℚ)) (original : σ) (nb : ℕ) (al : ℚ) (k : ℕ)
    (hk : k < (metric original).length) :
    (bootstrapCIOf nrm p15 .quantile sampler metric original nb al)[k]? =
      some (quantileLinear (column (bootstrapMetric sampler metric nb) k) (al / 2),
            quantileLinear (column (bootstrapMetric sampler metric nb) k) (1 - al / 2)) := by
  simp only [bootstrapCIOf, List.getElem?_map, List.getElem?_range hk, Option.map_some]
  cases (metric original).getD k none <;> simp [ciComponent, bootstrapCI]

/-- **C14 (quantile of a constant list).** A list of `n ≥ 1` copies of the finite value `c` has
`c` as its linear quantile at EVERY level `q`. -/
theorem C14_quantile_const (n : ℕ) (c q : ℚ) (hn : 1 ≤ n) :
    quantileLinear (List.replicate n (some c)) q = some c := by
  apply c14_quantile_const_of_mem
  · intro h
    have := congrArg List.length h
    simp at this; omega
  · intro x hx; exact (List.mem_replicate.mp hx).2

/-- **C14 (identity, one component).** If the sampler hands out the original object every time
and `nb ≥ 1`, then for all three methods, every alpha and ANY normal / power oracles both limits of
a component with finite estimate `th` equal `th` (for bc / bca the adjusted levels are irrelevant:
every quantile of a constant list is that constant). -/
theorem C14_identity_component (nrm : Normal) (p15 : ℚ → ℚ) (m : BootMethod) (sampler : ℕ → σ)
    (metric : σ → List (Option ℚ)) (original : σ) (nb : ℕ) (al : ℚ)
    (hid : ∀ j, j < nb → sampler j = original) (hnb : 1 ≤ nb) (k : ℕ) (th : ℚ)
    (hk : (metric original)[k]? = some (some th)) :
    (bootstrapCIOf nrm p15 m sampler metric original nb al)[k]? = some (some th, some th) := by
  rw [(C14_ci nrm p15 m sampler metric original nb al).2 k th hk]
  have hget : (metric original).getD k none = some th := by
    simp [List.getD_eq_getElem?_getD, hk]
  have hconst := c14_column_identity sampler metric original nb k hid
  rw [hget] at hconst
  rw [c14_bootstrapCI_const nrm p15 m _ th th al (c14_column_ne_nil sampler metric nb k hnb) hconst]

/-- **C14 (identity).** Identity sampler, `nb ≥ 1`, all components of the estimate finite: the
whole interval collapses to the estimate — `(e, e)` for every component `e` of `metric original` —
for all three methods, every alpha and ANY oracles. -/
theorem C14_identity (nrm : Normal) (p15 : ℚ → ℚ) (m : BootMethod) (sampler : ℕ → σ)
    (metric : σ → List (Option ℚ)) (original : σ) (nb : ℕ) (al : ℚ)
    (hid : ∀ j, j < nb → sampler j = original) (hnb : 1 ≤ nb)
    (hfin : ∀ e ∈ metric original, e ≠ none) :
    bootstrapCIOf nrm p15 m sampler metric original nb al =
      (metric original).map fun e => (e, e) := by
  apply List.ext_getElem?
  intro k
  rcases Nat.lt_or_ge k (metric original).length with hk | hk
  · have hne := hfin _ (List.getElem_mem hk)
    obtain ⟨th, hth⟩ := Option.ne_none_iff_exists'.mp hne
    have hk' : (metric original)[k]? = some (some th) := by
      rw [List.getElem?_eq_getElem hk, hth]
    rw [C14_identity_component nrm p15 m sampler metric original nb al hid hnb k th hk']
    simp [List.getElem?_map, hk']
  · have h1 : (bootstrapCIOf nrm p15 m sampler metric original nb al).length ≤ k := by
      rw [(C14_ci nrm p15 m sampler metric original nb al).1]; exact hk
    rw [List.getElem?_eq_none h1, List.getElem?_eq_none (by simpa using hk)]

/-- **C14 (identity, spec form).** Under the hypotheses of `C14_identity` the model's interval
passes `identityOK` with tolerance 0. -/
theorem C14_identity_spec (nrm : Normal) (p15 : ℚ → ℚ) (m : BootMethod) (sampler : ℕ → σ)
    (metric : σ → List (Option ℚ)) (original : σ) (nb : ℕ) (al : ℚ)
    (hid : ∀ j, j < nb → sampler j = original) (hnb : 1 ≤ nb)
    (hfin : ∀ e ∈ metric original, e ≠ none) :
    identityOK 0 (metric original) (bootstrapCIOf nrm p15 m sampler metric original nb al) = true := by
  rw [C14_identity nrm p15 m sampler metric original nb al hid hnb hfin]
  exact c14_identityOK_diag _

/-- **C14 (deterministic).** Replicates and interval are functions of the sampler (on
`0 .. nb-1`) and the metric alone: two samplers that hand out the same samples give the same
replicate matrix and the same interval (so, for a reproducible sample stream — fixed RNG seed — all
bootstrap results are reproducible). -/
theorem C14_deterministic (nrm : Normal) (p15 : ℚ → ℚ) (m : BootMethod) (s1 s2 : ℕ → σ)
    (metric : σ → List (Option ℚ)) (original : σ) (nb : ℕ) (al : ℚ)
    (h : ∀ j, j < nb → s1 j = s2 j) :
    bootstrapMetric s1 metric nb = bootstrapMetric s2 metric nb ∧
    bootstrapCIOf nrm p15 m s1 metric original nb al =
      bootstrapCIOf nrm p15 m s2 metric original nb al := by
  have hr := c14_rows_congr s1 s2 metric nb h
  exact ⟨hr, by simp only [bootstrapCIOf, hr]⟩

/-! ### the hypotheses are satisfiable, and the statements are not vacuous -/

/-- a two-component metric on `ℕ`-valued "samples": `[s/2, s²]` -/
def c14_toyMetric (s : ℕ) : List (Option ℚ) := [some ((s : ℚ) / 2), some ((s : ℚ) * s)]

example : bootstrapMetric (fun j => j + 1) c14_toyMetric 3 =
    [[some (1 / 2), some 1], [some 1, some 4], [some (3 / 2), some 9]] := by
  simp [bootstrapMetric, c14_toyMetric, List.range_succ]; norm_num

/-- identity sampler on the toy metric, BCa with the toy oracles: the interval is the estimate -/
example : bootstrapCIOf Normal.toy (fun x => x) .bca (fun _ => 3) c14_toyMetric 3 4 (1 / 20) =
    [(some (3 / 2), some (3 / 2)), (some 9, some 9)] := by
  rw [C14_identity Normal.toy (fun x => x) .bca (fun _ => 3) c14_toyMetric 3 4 (1 / 20)
    (fun _ _ => rfl) (by norm_num) (by simp [c14_toyMetric])]
  simp [c14_toyMetric]; norm_num

example : quantileLinear (List.replicate 3 (some (5 / 8 : ℚ))) (7 / 3) = some (5 / 8) :=
  C14_quantile_const 3 (5 / 8) (7 / 3) (by norm_num)

/-- two different samplers agreeing on `0, 1, 2` -/
example : bootstrapMetric (fun j => j) c14_toyMetric 3 =
    bootstrapMetric (fun j => if j < 3 then j else 0) c14_toyMetric 3 :=
  (C14_deterministic Normal.toy (fun x => x) .bc (fun j => j) (fun j => if j < 3 then j else 0)
    c14_toyMetric 0 3 (1 / 20) (fun j hj => by simp [hj])).1

/-- the constant-length hypothesis of `C14_rows` -/
example : ∀ r ∈ bootstrapMetric (fun j => j + 1) c14_toyMetric 5, r.length = 2 :=
  (C14_rows (fun j => j + 1) c14_toyMetric 5).2.2 2 (fun _ => rfl)

/-- the component hypothesis of `C14_ci` / `C14_identity_component` -/
example : (bootstrapCIOf Normal.toy (fun x => x) .bc (fun j => j + 1) c14_toyMetric 0 3 (1 / 20))[1]? =
    some (bootstrapCI Normal.toy (fun x => x) .bc
      (column (bootstrapMetric (fun j => j + 1) c14_toyMetric 3) 1) 0 (1 / 20)) :=
  (C14_ci Normal.toy (fun x => x) .bc (fun j => j + 1) c14_toyMetric 0 3 (1 / 20)).2 1 0
    (by simp [c14_toyMetric])

example : (bootstrapCIOf Normal.toy (fun x => x) .bc (fun _ => 4) c14_toyMetric 4 2 (1 / 20))[0]? =
    some (some 2, some 2) :=
  C14_identity_component Normal.toy (fun x => x) .bc (fun _ => 4) c14_toyMetric 4 2 (1 / 20)
    (fun _ _ => rfl) (by norm_num) 0 2 (by simp [c14_toyMetric]; norm_num)

example : (bootstrapCIOf Normal.toy (fun x => x) .quantile (fun j => j) c14_toyMetric 7 3 (1 / 20))[1]? =
    some (quantileLinear (column (bootstrapMetric (fun j => j) c14_toyMetric 3) 1) (1 / 20 / 2),
          quantileLinear (column (bootstrapMetric (fun j => j) c14_toyMetric 3) 1) (1 - 1 / 20 / 2)) :=
  C14_ci_quantile Normal.toy (fun x => x) (fun j => j) c14_toyMetric 7 3 (1 / 20) 1 (by simp [c14_toyMetric])

end SA
