/-
C14 — `Scores.bootstrap_ci` hands the replicate array `theta` of shape `(nb,) + Y` (row `j` = the
metric of sample `j`, `res[j] = metric(sample)`, C order) and the point estimate to
`utils.bootstrap_ci`.  With the whole-array model `bootstrapCIVec` (C13Vec) the assembled interval
array is, entry by entry, the per-component interval list `bootstrapCIOf` of `C14.lean`: entry
`[y..., a..., k]` is limit `k` of component `flatIndex Y y` at level `alpha[a...]`.
-/
import SA.Theorems.C13Vec
import SA.Theorems.C14

namespace SA

variable {σ : Type}

/-- the replicate array `res` of `bootstrap_metric` for a metric of shape `Y`: `nb` rows, each the
row-major flattening of one metric value -/
def replicateArray (rows : List (List (Option ℚ))) (Y : List ℕ) : Nd (Option ℚ) :=
  ⟨rows.length :: Y, rows.flatten⟩

theorem c14v_flatten_getD {α : Type} (d : α) (P : ℕ) :
    ∀ (rows : List (List α)) (n t : ℕ), (∀ r ∈ rows, r.length = P) → n < rows.length → t < P →
      rows.flatten.getD (n * P + t) d = (rows.getD n []).getD t d
  | [], n, t, _, hn, _ => by simp at hn
  | r :: rs, 0, t, h, _, ht => by
    have hr : r.length = P := h r (by simp)
    simp [List.getD_eq_getElem?_getD, List.getElem?_append_left (hr ▸ ht)]
  | r :: rs, n + 1, t, h, hn, ht => by
    have hr : r.length = P := h r (by simp)
    have ih := c14v_flatten_getD d P rs n t (fun r' hr' => h r' (by simp [hr'])) (by simpa using hn) ht
    have e : (n + 1) * P + t = r.length + (n * P + t) := by rw [hr]; ring
    simp only [List.flatten_cons, List.getD_eq_getElem?_getD, e] at ih ⊢
    rw [List.getElem?_append_right (by omega)]
    simpa using ih

/-- column `y` of the replicate array is column `flatIndex Y y` of the replicate matrix -/
theorem c14v_column (rows : List (List (Option ℚ))) (Y y : List ℕ)
    (hlen : ∀ r ∈ rows, r.length = shapeProd Y) (hy : InRange Y y) :
    (replicateArray rows Y).column y = column rows (flatIndex Y y) := by
  have hfy := flatIndex_lt hy
  unfold Nd.column column replicateArray
  simp only [List.headD_cons, Nd.get, flatIndex]
  apply List.ext_getElem
  · simp
  · intro n h1 h2
    simp only [List.length_map, List.length_range] at h1
    simp only [List.getElem_map, List.getElem_range]
    rw [show (default : Option ℚ) = none from rfl, c14v_flatten_getD none (shapeProd Y) rows n _ hlen h1 hfy]
    simp [List.getD_eq_getElem?_getD, h1]

/-- **C14 (interval array, quantile method).** For a metric of shape `Y` (every sample's metric has
`prod Y` components) and an alpha array of any shape, `utils.bootstrap_ci` applied to the replicate
array succeeds, has shape `Y + A + (2,)`, and entry `[y..., a..., k]` is limit `k` of component
`flatIndex Y y` of the per-component interval list at level `alpha[a...]`. -/
theorem C14_ci_vec_quantile (nrm : Normal) (p15 : ℚ → ℚ) (sampler : ℕ → σ)
    (metric : σ → List (Option ℚ)) (original : σ) (nb : ℕ) (Y : List ℕ) (est : Option (Nd ℚ))
    (alpha : Nd ℚ) (hnb : nb ≠ 0) (hlen : ∀ s, (metric s).length = shapeProd Y)
    (hw : alpha.WF) (hne : alpha.size ≠ 0) (hal : ∀ x ∈ alpha.data, 0 ≤ x ∧ x ≤ 2) :
    ∃ r, bootstrapCIVec nrm p15 .quantile
        (replicateArray (bootstrapMetric sampler metric nb) Y) est alpha = .ok r ∧
      r.shape = Y ++ alpha.shape ++ [2] ∧
      ∀ (y a : List ℕ) (k : ℕ), InRange Y y → InRange alpha.shape a → k < 2 →
        ((bootstrapCIOf nrm p15 .quantile sampler metric original nb (alpha.get a))[flatIndex Y y]?).map
          (limitK k) = some (r.get (y ++ a ++ [k])) := by
  have hrows : ∀ r ∈ bootstrapMetric sampler metric nb, r.length = shapeProd Y :=
    (C14_rows sampler metric nb).2.2 _ hlen
  have hl : (bootstrapMetric sampler metric nb).length = nb := (C14_rows sampler metric nb).1
  obtain ⟨r, hr, hs, _, hg⟩ := C13_vec_quantile nrm p15
    (replicateArray (bootstrapMetric sampler metric nb) Y) est alpha nb Y
    (by simp [replicateArray, hl]) (Or.inl hnb) hw hne hal
  refine ⟨r, hr, hs, ?_⟩
  intro y a k hy ha hk
  have hfy : flatIndex Y y < (metric original).length := by rw [hlen]; exact flatIndex_lt hy
  rw [C14_ci_quantile nrm p15 sampler metric original nb _ _ hfy, hg y a k 0 hy ha hk,
    c14v_column _ Y y hrows hy, C13_quantile_levels]
  rfl

/-- **C14 (interval array, bc / bca, scalar alpha).** With a finite point estimate of shape `Y`
(`metric original = est` flattened) the array has shape `Y + (2,)` and entry `[y..., k]` is limit
`k` of component `flatIndex Y y` of the per-component interval list. -/
theorem C14_ci_vec_bc (nrm : Normal) (p15 : ℚ → ℚ) (m : BootMethod) (hm : m ≠ .quantile)
    (sampler : ℕ → σ) (metric : σ → List (Option ℚ)) (original : σ) (nb : ℕ) (Y : List ℕ)
    (est : Nd ℚ) (alpha : Nd ℚ) (al : ℚ) (hnb : nb ≠ 0)
    (hlen : ∀ s, (metric s).length = shapeProd Y) (hest : est.shape = Y)
    (horig : metric original = est.data.map some) (hal : alpha.data = [al]) :
    ∃ r, bootstrapCIVec nrm p15 m
        (replicateArray (bootstrapMetric sampler metric nb) Y) (some est) alpha = .ok r ∧
      r.shape = Y ++ [2] ∧
      ∀ (y : List ℕ) (k : ℕ), InRange Y y → k < 2 →
        ((bootstrapCIOf nrm p15 m sampler metric original nb al)[flatIndex Y y]?).map
          (limitK k) = some (r.get (y ++ [k])) := by
  have hrows : ∀ r ∈ bootstrapMetric sampler metric nb, r.length = shapeProd Y :=
    (C14_rows sampler metric nb).2.2 _ hlen
  have hl : (bootstrapMetric sampler metric nb).length = nb := (C14_rows sampler metric nb).1
  obtain ⟨r, hr, hs, _, hg⟩ := C13_vec_bc nrm p15 m hm
    (replicateArray (bootstrapMetric sampler metric nb) Y) est alpha al nb Y
    (by simp [replicateArray, hl]) hnb hest hal
  refine ⟨r, hr, hs, ?_⟩
  intro y k hy hk
  have hfy : flatIndex Y y < est.data.length := by
    have := hlen original; rw [horig, List.length_map] at this; rw [this]; exact flatIndex_lt hy
  have hk' : (metric original)[flatIndex Y y]? = some (some (est.get y)) := by
    rw [horig, List.getElem?_map, List.getElem?_eq_getElem hfy]
    simp [Nd.get, hest, List.getD_eq_getElem?_getD, hfy]
  rw [(C14_ci nrm p15 m sampler metric original nb al).2 _ _ hk', hg y k hy hk,
    c14v_column _ Y y hrows hy]
  rfl

/-- the hypotheses are satisfiable: a 2-component metric of shape `(2,)` on `ℕ`-valued samples -/
example :=
  C14_ci_vec_quantile Normal.toy id (fun j => j) (fun s => [some (s : ℚ), some ((s : ℚ) * s)]) 0 3 [2]
    none ⟨[2], [1 / 10, 1 / 2]⟩ (by decide) (fun _ => rfl) rfl (by decide) (by decide +kernel)

example :=
  C14_ci_vec_bc Normal.toy id .bc (by decide) (fun j => j)
    (fun s => [some (s : ℚ), some ((s : ℚ) * s)]) 1 3 [2] ⟨[2], [1, 1]⟩ ⟨[], [1 / 10]⟩ (1 / 10)
    (by decide) (fun _ => rfl) rfl (by simp) rfl

end SA
