/-
C15 — ROC curves are genuine operating points, ordered along the chosen x-axis.
-/
import SA.Theorems.C02
import SA.Spec.C15

namespace SA
open Spec

/-! ### structure of the model's result -/

theorem thresholdAtArr_ok (u : Ulp) (s : Scores) (metric : Metric) (rs ts : List ℚ) (m : Method)
    (h : s.thresholdAtArr u metric rs m = .ok ts) :
    (s.metricArray metric).length ≠ 0 ∧
    ts = rs.map fun r => thresholdAtRatio u s.cfg (s.metricArray metric) (s.rescale metric r)
      metric.increasing metric.ratioClass m := by
  unfold Scores.thresholdAtArr at h
  split at h
  · cases h
  · rename_i hne
    injection h with h
    exact ⟨hne, h.symm⟩

theorem thresholdAtArr_of_ne (u : Ulp) (s : Scores) (metric : Metric) (rs : List ℚ) (m : Method)
    (hne : (s.metricArray metric).length ≠ 0) :
    ∃ ts, s.thresholdAtArr u metric rs m = .ok ts := by
  unfold Scores.thresholdAtArr
  rw [if_neg hne]
  exact ⟨_, rfl⟩

/-- the array form is the scalar form applied to every target -/
theorem thresholdAtArr_forall2 (u : Ulp) (s : Scores) (metric : Metric) (rs ts : List ℚ)
    (m : Method) (h : s.thresholdAtArr u metric rs m = .ok ts) :
    List.Forall₂ (fun r t => s.thresholdAt u metric r m = .ok t) rs ts := by
  obtain ⟨hne, rfl⟩ := thresholdAtArr_ok u s metric rs ts m h
  induction rs with
  | nil => exact List.Forall₂.nil
  | cons r rs ih =>
    refine List.Forall₂.cons ?_ ?_
    · unfold Scores.thresholdAt; rw [if_neg hne]
    · apply ih
      unfold Scores.thresholdAtArr; rw [if_neg hne]

theorem thresholdAtArr_length (u : Ulp) (s : Scores) (metric : Metric) (rs ts : List ℚ)
    (m : Method) (h : s.thresholdAtArr u metric rs m = .ok ts) : ts.length = rs.length := by
  obtain ⟨_, rfl⟩ := thresholdAtArr_ok u s metric rs ts m h
  simp

theorem thresholdAtArr_mem (u : Ulp) (s : Scores) (metric : Metric) (rs ts : List ℚ)
    (m : Method) (h : s.thresholdAtArr u metric rs m = .ok ts) (r : ℚ) (hr : r ∈ rs) :
    ∃ t, s.thresholdAt u metric r m = .ok t ∧ t ∈ ts := by
  obtain ⟨hne, rfl⟩ := thresholdAtArr_ok u s metric rs ts m h
  refine ⟨_, ?_, List.mem_map.mpr ⟨r, hr, rfl⟩⟩
  unfold Scores.thresholdAt; rw [if_neg hne]

theorem findSupport_ok (u : Ulp) (s : Scores) (fnr fpr thr : Option (List ℚ)) (nb : Option ℕ)
    (xa : String) (ts : List ℚ) (h : findSupportThresholds u s fnr fpr thr nb xa = .ok ts) :
    ∃ l x, supportPoints u s fnr fpr thr nb = .ok l ∧ XAxis.ofString xa = some x ∧
      ts = orient x s.cfg.scoreClass (sortQ l) := by
  unfold findSupportThresholds at h
  split at h
  · cases h
  · rename_i l hl
    simp only at h
    split at h
    · cases h
    · rename_i x hx
      injection h with h
      exact ⟨l, x, hl, hx, h.symm⟩

theorem suppliedPoints_ok (u : Ulp) (s : Scores) (fnr fpr thr : Option (List ℚ)) (l : List ℚ)
    (h : suppliedPoints u s fnr fpr thr = .ok l) :
    ∃ a b, optThresholds u s .fnr fnr = .ok a ∧ optThresholds u s .fpr fpr = .ok b ∧
      l = (thr.getD [] ++ a) ++ b := by
  unfold suppliedPoints at h
  split at h
  · cases h
  · rename_i a ha
    split at h
    · cases h
    · rename_i b hb
      injection h with h
      exact ⟨a, b, ha, hb, h.symm⟩

theorem supportPoints_ok (u : Ulp) (s : Scores) (fnr fpr thr : Option (List ℚ)) (nb : Option ℕ)
    (l : List ℚ) (h : supportPoints u s fnr fpr thr nb = .ok l) :
    ∃ l0, suppliedPoints u s fnr fpr thr = .ok l0 ∧
      ((l0.length ≠ 0 ∧ l = l0) ∨ (l0.length = 0 ∧ defaultPoints u s nb = .ok l)) := by
  unfold supportPoints at h
  split at h
  · cases h
  · rename_i l0 hl0
    refine ⟨l0, hl0, ?_⟩
    by_cases h0 : l0.length = 0
    · rw [if_pos h0] at h; exact Or.inr ⟨h0, h⟩
    · rw [if_neg h0] at h; injection h with h; exact Or.inl ⟨h0, h.symm⟩

theorem optThresholds_length (u : Ulp) (s : Scores) (metric : Metric) (o : Option (List ℚ))
    (a : List ℚ) (h : optThresholds u s metric o = .ok a) : a.length = C15.optLen o := by
  cases o with
  | none => simp only [optThresholds] at h; injection h with h; subst h; rfl
  | some rs => exact thresholdAtArr_length u s metric rs a .linear h

theorem length_linspace01 (k : ℕ) : (linspace01 k).length = k := by
  unfold linspace01
  split
  · rename_i h; subst h; rfl
  · simp

/-! ### orientation -/

/-- `true` when the returned thresholds are ascending -/
def ascending (x : XAxis) (sc : Label) : Bool := x.decreasing == decide (sc = .neg)

theorem orient_perm (x : XAxis) (sc : Label) (l : List ℚ) : (orient x sc l).Perm l := by
  unfold orient
  cases x.decreasing <;> cases sc <;> simp

theorem orient_pairwise (x : XAxis) (sc : Label) (l : List ℚ) (h : l.Pairwise (· ≤ ·)) :
    (orient x sc l).Pairwise (fun a b => if ascending x sc then a ≤ b else b ≤ a) := by
  unfold orient ascending
  cases x.decreasing <;> cases sc <;> simp [List.pairwise_reverse, h]

/-- the reversal table of roc_curve.py:305-308 is the direction in which the named metric grows
with the threshold -/
theorem ascending_eq (x : XAxis) (cfg : Cfg) :
    ascending x cfg.scoreClass = evenFlips cfg x.metric.increasing := by
  obtain ⟨sc, ec⟩ := cfg
  cases x <;> cases sc <;> rfl

/-- on sorted arrays each numerator is monotone in the threshold, in the direction given by the
metric and `score_class` -/
theorem rateNum_le_of (s : Scores) (hp : s.pos.Pairwise (· ≤ ·)) (hn : s.neg.Pairwise (· ≤ ·))
    (metric : Metric) (t t' : ℚ)
    (h : if evenFlips s.cfg metric.increasing then t ≤ t' else t' ≤ t) :
    (s.cm (.fin t)).rateNum metric ≤ (s.cm (.fin t')).rateNum metric := by
  rw [rateNum_eq s hp hn, rateNum_eq s hp hn]
  by_cases he : evenFlips s.cfg metric.increasing = true
  · simp only [he, if_true] at h ⊢
    exact Nat.add_le_add_left (belowCount_mono _ _ _ _ h) _
  · simp only [he, if_false, Bool.false_eq_true] at h ⊢
    have h1 := belowCount_mono s.cfg (s.metricArray metric) _ _ h
    have h2 := belowCount_le_length s.cfg (s.metricArray metric) t
    omega

/-- TP+FN and FP+TN of the object's matrices do not depend on the threshold (sorted arrays). -/
theorem cm_totals_sorted (s : Scores) (hp : s.pos.Pairwise (· ≤ ·)) (hn : s.neg.Pairwise (· ≤ ·))
    (t : ERat) :
    (s.cm t).p = s.pos.length + s.easyPos ∧ (s.cm t).n = s.neg.length + s.easyNeg := by
  rw [cm_eq_countCM_of_sorted s hp hn]
  simp only [countCM, CM.p, CM.n]
  have h1 := countP_not (fun x => accept s.cfg x t) s.pos
  have h2 := countP_not (fun x => accept s.cfg x t) s.neg
  have h3 : s.pos.countP (fun x => accept s.cfg x t) ≤ s.pos.length := List.countP_le_length
  have h4 : s.neg.countP (fun x => accept s.cfg x t) ≤ s.neg.length := List.countP_le_length
  constructor <;> omega

/-! ### the property theorems -/

/-- **C15 (rates match).** Whenever `roc` returns, its thresholds are those of
`_find_support_thresholds`, FNR and FPR have the same length as the thresholds, and entry `i`
of FNR / FPR is the object's FNR / FPR at threshold `i`. -/
theorem C15_rates_match (u : Ulp) (s : Scores) (fnr fpr thr : Option (List ℚ)) (nb : Option ℕ)
    (xa : String) (c : RocCurve) (h : roc u s fnr fpr thr nb xa = .ok c) :
    findSupportThresholds u s fnr fpr thr nb xa = .ok c.thresholds ∧
    c.fnr.length = c.thresholds.length ∧ c.fpr.length = c.thresholds.length ∧
    ∀ i (hi : i < c.thresholds.length),
      c.fnr[i]? = some (s.cm (.fin c.thresholds[i])).fnr ∧
      c.fpr[i]? = some (s.cm (.fin c.thresholds[i])).fpr := by
  unfold roc at h
  split at h
  · cases h
  · rename_i ts hts
    injection h with h
    subst h
    refine ⟨hts, by simp, by simp, ?_⟩
    intro i hi
    simp only at hi
    simp [hi]

/-- **C15 (monotone).** For each of the 8 `x_axis` names, both score directions and both
equality classes, the count behind the named metric (FN, FP, TN, TP; the denominators are
constant, `cm_totals_sorted`) is non-decreasing along the returned thresholds. -/
theorem C15_monotone (u : Ulp) (s : Scores) (hp : s.pos.Pairwise (· ≤ ·))
    (hn : s.neg.Pairwise (· ≤ ·)) (fnr fpr thr : Option (List ℚ)) (nb : Option ℕ)
    (xa : String) (x : XAxis) (hx : XAxis.ofString xa = some x) (ts : List ℚ)
    (h : findSupportThresholds u s fnr fpr thr nb xa = .ok ts) :
    (ts.map fun t => (s.cm (.fin t)).rateNum x.metric).Pairwise (· ≤ ·) := by
  obtain ⟨l, x', _, hx', rfl⟩ := findSupport_ok u s fnr fpr thr nb xa ts h
  rw [hx] at hx'
  injection hx' with hx'
  subst hx'
  rw [List.pairwise_map]
  have hs := orient_pairwise x s.cfg.scoreClass (sortQ l) (sortQ_pairwise l)
  rw [ascending_eq] at hs
  exact hs.imp (fun {a b} hab => rateNum_le_of s hp hn x.metric a b hab)

/-- the thresholds are a permutation of the support points -/
theorem C15_perm (u : Ulp) (s : Scores) (fnr fpr thr : Option (List ℚ)) (nb : Option ℕ)
    (xa : String) (ts : List ℚ) (h : findSupportThresholds u s fnr fpr thr nb xa = .ok ts) :
    ∃ l, supportPoints u s fnr fpr thr nb = .ok l ∧ ts.Perm l := by
  obtain ⟨l, x, hl, _, rfl⟩ := findSupport_ok u s fnr fpr thr nb xa ts h
  exact ⟨l, hl, (orient_perm x _ _).trans (sortQ_perm l)⟩

theorem mem_of_supplied (u : Ulp) (s : Scores) (fnr fpr thr : Option (List ℚ)) (nb : Option ℕ)
    (xa : String) (ts l0 : List ℚ) (h : findSupportThresholds u s fnr fpr thr nb xa = .ok ts)
    (h0 : suppliedPoints u s fnr fpr thr = .ok l0) (t : ℚ) (ht : t ∈ l0) : t ∈ ts := by
  obtain ⟨l, hl, hperm⟩ := C15_perm u s fnr fpr thr nb xa ts h
  obtain ⟨l0', hl0', hcase⟩ := supportPoints_ok u s fnr fpr thr nb l hl
  rw [h0] at hl0'
  injection hl0' with hl0'
  subst hl0'
  rcases hcase with ⟨_, rfl⟩ | ⟨hz, _⟩
  · exact hperm.mem_iff.mpr ht
  · have : l0 = [] := List.eq_nil_of_length_eq_zero hz
    rw [this] at ht
    cases ht

/-- **C15 (contains).** The returned thresholds contain every user-supplied threshold, and for
every supplied FNR (FPR) value the threshold that `threshold_at_fnr` (`threshold_at_fpr`)
assigns to it. -/
theorem C15_contains (u : Ulp) (s : Scores) (fnr fpr thr : Option (List ℚ)) (nb : Option ℕ)
    (xa : String) (ts : List ℚ) (h : findSupportThresholds u s fnr fpr thr nb xa = .ok ts) :
    (∀ l, thr = some l → ∀ t ∈ l, t ∈ ts) ∧
    (∀ f, fnr = some f → ∀ r ∈ f, ∃ t, s.thresholdAt u .fnr r .linear = .ok t ∧ t ∈ ts) ∧
    (∀ f, fpr = some f → ∀ r ∈ f, ∃ t, s.thresholdAt u .fpr r .linear = .ok t ∧ t ∈ ts) := by
  obtain ⟨l, hl, _⟩ := C15_perm u s fnr fpr thr nb xa ts h
  obtain ⟨l0, hl0, _⟩ := supportPoints_ok u s fnr fpr thr nb l hl
  obtain ⟨a, b, ha, hb, rfl⟩ := suppliedPoints_ok u s fnr fpr thr l0 hl0
  have key := mem_of_supplied u s fnr fpr thr nb xa ts _ h hl0
  refine ⟨?_, ?_, ?_⟩
  · intro l hthr t ht
    apply key
    subst hthr
    simp [ht]
  · intro f hf r hr
    subst hf
    obtain ⟨t, h1, h2⟩ := thresholdAtArr_mem u s .fnr f a .linear ha r hr
    exact ⟨t, h1, key t (by simp [h2])⟩
  · intro f hf r hr
    subst hf
    obtain ⟨t, h1, h2⟩ := thresholdAtArr_mem u s .fpr f b .linear hb r hr
    exact ⟨t, h1, key t (by simp [h2])⟩

theorem defaultPoints_length (u : Ulp) (s : Scores) (nb : Option ℕ) (l : List ℚ)
    (h : defaultPoints u s nb = .ok l) :
    l.length = match (generalizing := false) nb with
      | none => s.pos.length + s.neg.length
      | some n => n := by
  cases nb with
  | none =>
    simp only [defaultPoints] at h
    injection h with h
    subst h
    simp
  | some k =>
    simp only [defaultPoints] at h
    split at h
    · cases h
    · rename_i a ha
      split at h
      · cases h
      · rename_i b hb
        injection h with h
        subst h
        have h1 := thresholdAtArr_length u s _ _ _ _ ha
        have h2 := thresholdAtArr_length u s _ _ _ _ hb
        rw [length_linspace01] at h1 h2
        simp only [List.length_append, h1, h2]
        omega

theorem findSupport_length (u : Ulp) (s : Scores) (fnr fpr thr : Option (List ℚ)) (nb : Option ℕ)
    (xa : String) (ts : List ℚ) (h : findSupportThresholds u s fnr fpr thr nb xa = .ok ts) :
    ts.length = C15.expectedLength s fnr fpr thr nb := by
  obtain ⟨l, hl, hperm⟩ := C15_perm u s fnr fpr thr nb xa ts h
  obtain ⟨l0, hl0, hcase⟩ := supportPoints_ok u s fnr fpr thr nb l hl
  obtain ⟨a, b, ha, hb, rfl⟩ := suppliedPoints_ok u s fnr fpr thr l0 hl0
  have la := optThresholds_length u s _ _ _ ha
  have lb := optThresholds_length u s _ _ _ hb
  have lt : (thr.getD []).length = C15.optLen thr := by cases thr <;> rfl
  have l0len : (thr.getD [] ++ a ++ b).length = C15.optLen thr + C15.optLen fnr + C15.optLen fpr := by
    simp only [List.length_append, la, lb, lt]
  rw [hperm.length_eq]
  unfold C15.expectedLength
  simp only
  rcases hcase with ⟨hnz, rfl⟩ | ⟨hz, hd⟩
  · rw [l0len] at hnz ⊢
    rw [if_neg hnz]
  · rw [l0len] at hz
    rw [if_pos hz]
    exact defaultPoints_length u s nb l hd

/-- **C15 (length).** With supplied points the curve has `|thresholds| + |fnr| + |fpr|` points
(`nb_points` is ignored); with none supplied (`None` or empty arrays) it has exactly `nb_points`
points, or one per scored sample when `nb_points` is `None`. -/
theorem C15_length (u : Ulp) (s : Scores) (fnr fpr thr : Option (List ℚ)) (nb : Option ℕ)
    (xa : String) (ts : List ℚ) (h : findSupportThresholds u s fnr fpr thr nb xa = .ok ts) :
    let k := C15.optLen thr + C15.optLen fnr + C15.optLen fpr
    (k ≠ 0 → ts.length = k) ∧
    (k = 0 → ∀ n, nb = some n → ts.length = n) ∧
    (k = 0 → nb = none → ts.length = s.pos.length + s.neg.length) := by
  have hlen := findSupport_length u s fnr fpr thr nb xa ts h
  unfold C15.expectedLength at hlen
  simp only at hlen ⊢
  refine ⟨?_, ?_, ?_⟩
  · intro hk; rw [hlen, if_neg hk]
  · intro hk n hn; subst hn; rw [hlen, if_pos hk]
  · intro hk hn; subst hn; rw [hlen, if_pos hk]

/-- `1 - FNR = TPR` and `1 - FPR = TNR` on every matrix, NaN exactly together. -/
theorem oneMinus_fnr (m : CM) : oneMinus m.fnr = m.tpr := by
  unfold CM.fnr CM.tpr ratio CM.p
  by_cases hd : m.tp + m.fn = 0
  · simp [hd, oneMinus]
  · simp only [hd, if_false, oneMinus, Option.some.injEq]
    have : ((m.tp + m.fn : ℕ) : ℚ) ≠ 0 := by exact_mod_cast hd
    field_simp
    push_cast
    ring

theorem oneMinus_fpr (m : CM) : oneMinus m.fpr = m.tnr := by
  unfold CM.fpr CM.tnr ratio CM.n
  by_cases hd : m.fp + m.tn = 0
  · simp [hd, oneMinus]
  · simp only [hd, if_false, oneMinus, Option.some.injEq]
    have : ((m.fp + m.tn : ℕ) : ℚ) ≠ 0 := by exact_mod_cast hd
    field_simp
    push_cast
    ring

theorem oneMinus_isNone (a : Option ℚ) : (oneMinus a).isNone = a.isNone := by
  cases a <;> rfl

/-- **C15 (views).** The TPR / TNR views of the returned curve are the object's TPR / TNR at
the returned thresholds (complements of FNR / FPR, NaN-preserving); FRR, FAR, TAR, TRR are
aliases of FNR, FPR, TPR, TNR. -/
theorem C15_views (u : Ulp) (s : Scores) (fnr fpr thr : Option (List ℚ)) (nb : Option ℕ)
    (xa : String) (c : RocCurve) (h : roc u s fnr fpr thr nb xa = .ok c) :
    c.tpr = c.thresholds.map (fun t => (s.cm (.fin t)).tpr) ∧
    c.tnr = c.thresholds.map (fun t => (s.cm (.fin t)).tnr) ∧
    c.frr = c.fnr ∧ c.far = c.fpr ∧ c.tar = c.tpr ∧ c.trr = c.tnr ∧
    c.tpr = c.fnr.map oneMinus ∧ c.tnr = c.fpr.map oneMinus := by
  unfold roc at h
  split at h
  · cases h
  · rename_i ts hts
    injection h with h
    subst h
    refine ⟨?_, ?_, rfl, rfl, rfl, rfl, rfl, rfl⟩
    · simp only [RocCurve.tpr, List.map_map]
      apply List.map_congr_left
      intro t _
      exact oneMinus_fnr _
    · simp only [RocCurve.tnr, List.map_map]
      apply List.map_congr_left
      intro t _
      exact oneMinus_fpr _

/-- every view is the named rate of the object at the returned thresholds -/
theorem view_eq (u : Ulp) (s : Scores) (fnr fpr thr : Option (List ℚ)) (nb : Option ℕ)
    (xa : String) (c : RocCurve) (h : roc u s fnr fpr thr nb xa = .ok c) (x : XAxis) :
    c.view x = c.thresholds.map (fun t => (s.cm (.fin t)).rate x.metric) := by
  obtain ⟨h1, h2, _, _, _, _, _, _⟩ := C15_views u s fnr fpr thr nb xa c h
  have hf : c.fnr = c.thresholds.map (fun t => (s.cm (.fin t)).fnr) := by
    unfold roc at h; split at h
    · cases h
    · injection h with h; subst h; rfl
  have hg : c.fpr = c.thresholds.map (fun t => (s.cm (.fin t)).fpr) := by
    unfold roc at h; split at h
    · cases h
    · injection h with h; subst h; rfl
  cases x <;>
    simp only [RocCurve.view, RocCurve.tar, RocCurve.trr, RocCurve.frr, RocCurve.far,
      XAxis.metric, CM.rate, h1, h2, hf, hg]

/-- **C15 (no error).** With both classes non-empty and a valid axis name the function returns;
with an invalid name it raises `ValueError`. -/
theorem C15_total (u : Ulp) (s : Scores) (hp : s.pos.length ≠ 0) (hn : s.neg.length ≠ 0)
    (fnr fpr thr : Option (List ℚ)) (nb : Option ℕ) (xa : String) :
    match XAxis.ofString xa with
    | some _ => ∃ ts, findSupportThresholds u s fnr fpr thr nb xa = .ok ts
    | none => findSupportThresholds u s fnr fpr thr nb xa = .error .valueError := by
  have hA : ∀ rs, ∃ a, s.thresholdAtArr u .fnr rs .linear = .ok a :=
    fun rs => thresholdAtArr_of_ne u s .fnr rs .linear hp
  have hB : ∀ rs, ∃ a, s.thresholdAtArr u .fpr rs .linear = .ok a :=
    fun rs => thresholdAtArr_of_ne u s .fpr rs .linear hn
  have hoA : ∃ a, optThresholds u s .fnr fnr = .ok a := by
    cases fnr with
    | none => exact ⟨[], rfl⟩
    | some f => exact hA f
  have hoB : ∃ b, optThresholds u s .fpr fpr = .ok b := by
    cases fpr with
    | none => exact ⟨[], rfl⟩
    | some f => exact hB f
  obtain ⟨a, ha⟩ := hoA
  obtain ⟨b, hb⟩ := hoB
  have hsup : suppliedPoints u s fnr fpr thr = .ok ((thr.getD [] ++ a) ++ b) := by
    simp only [suppliedPoints, ha, hb]
  have hdef : ∃ l, defaultPoints u s nb = .ok l := by
    cases nb with
    | none => exact ⟨_, rfl⟩
    | some k =>
      obtain ⟨a', ha'⟩ := hA (linspace01 (k / 2))
      obtain ⟨b', hb'⟩ := hB (linspace01 (k - k / 2))
      exact ⟨a' ++ b', by simp only [defaultPoints, ha', hb']⟩
  have hpts : ∃ l, supportPoints u s fnr fpr thr nb = .ok l := by
    simp only [supportPoints, hsup]
    split
    · exact hdef
    · exact ⟨_, rfl⟩
  obtain ⟨l, hl⟩ := hpts
  cases hx : XAxis.ofString xa with
  | none => simp only [findSupportThresholds, hl, hx]
  | some x =>
    refine ⟨orient x s.cfg.scoreClass (sortQ l), ?_⟩
    simp only [findSupportThresholds, hl, hx]

/-! ### the executable spec clauses hold of the model -/

theorem nearO_self_c15 (a : Option ℚ) : C15.nearO 0 a a = true := by
  cases a with
  | none => rfl
  | some x => simp [C15.nearO, absQ]

theorem C15_spec_rates (u : Ulp) (s : Scores) (fnr fpr thr : Option (List ℚ)) (nb : Option ℕ)
    (xa : String) (c : RocCurve) (h : roc u s fnr fpr thr nb xa = .ok c) :
    C15.ratesMatchOK 0 c.thresholds.length (c.thresholds.map fun t => s.cm (.fin t))
      c.fnr c.fpr = true := by
  unfold roc at h
  split at h
  · cases h
  · rename_i ts hts
    injection h with h
    subst h
    simp only [C15.ratesMatchOK, List.length_map, beq_self_eq_true, Bool.true_and,
      Bool.and_eq_true, List.all_eq_true]
    constructor
    · intro p hp
      rw [List.zip_map', List.mem_map] at hp
      obtain ⟨t, _, rfl⟩ := hp
      exact nearO_self_c15 _
    · intro p hp
      rw [List.zip_map', List.mem_map] at hp
      obtain ⟨t, _, rfl⟩ := hp
      exact nearO_self_c15 _

theorem monotoneOK_of_pairwise : ∀ l : List (Option ℚ),
    l.Pairwise (fun a b => C15.leO a b = true) → C15.monotoneOK l = true
  | [] => fun _ => rfl
  | [_] => fun _ => rfl
  | a :: b :: rest => by
    intro h
    rw [List.pairwise_cons] at h
    simp only [C15.monotoneOK, Bool.and_eq_true]
    exact ⟨h.1 b (by simp), monotoneOK_of_pairwise (b :: rest) h.2⟩

theorem rate_eq_ratio (m : CM) (metric : Metric) :
    m.rate metric = ratio (m.rateNum metric) (m.rateDen metric) := by
  cases metric <;> rfl

theorem leO_ratio (a b d : ℕ) (h : a ≤ b) : C15.leO (ratio a d) (ratio b d) = true := by
  unfold ratio
  by_cases hd : d = 0
  · simp [hd, C15.leO]
  · simp only [hd, if_false, C15.leO, decide_eq_true_eq]
    have hdq : (0 : ℚ) < (d : ℚ) := by exact_mod_cast Nat.pos_of_ne_zero hd
    have hq : (a : ℚ) ≤ (b : ℚ) := by exact_mod_cast h
    exact div_le_div_of_nonneg_right hq (le_of_lt hdq)

theorem rateDen_sorted (s : Scores) (hp : s.pos.Pairwise (· ≤ ·)) (hn : s.neg.Pairwise (· ≤ ·))
    (x : XAxis) (t : ERat) :
    (s.cm t).rateDen x.metric =
      match x.metric with
      | .tpr | .fnr => s.pos.length + s.easyPos
      | _ => s.neg.length + s.easyNeg := by
  obtain ⟨h1, h2⟩ := cm_totals_sorted s hp hn t
  cases x <;> simp only [XAxis.metric, CM.rateDen, h1, h2]

/-- the x-axis values of the model's curve satisfy the executable monotonicity predicate -/
theorem C15_spec_monotone (u : Ulp) (s : Scores) (hp : s.pos.Pairwise (· ≤ ·))
    (hn : s.neg.Pairwise (· ≤ ·)) (fnr fpr thr : Option (List ℚ)) (nb : Option ℕ)
    (xa : String) (x : XAxis) (hx : XAxis.ofString xa = some x) (c : RocCurve)
    (h : roc u s fnr fpr thr nb xa = .ok c) :
    C15.monotoneOK (c.view x) = true := by
  obtain ⟨hts, _⟩ := C15_rates_match u s fnr fpr thr nb xa c h
  have hmono := C15_monotone u s hp hn fnr fpr thr nb xa x hx c.thresholds hts
  rw [view_eq u s fnr fpr thr nb xa c h x]
  apply monotoneOK_of_pairwise
  rw [List.pairwise_map] at hmono ⊢
  refine hmono.imp ?_
  intro a b hab
  rw [rate_eq_ratio, rate_eq_ratio, rateDen_sorted s hp hn x, rateDen_sorted s hp hn x]
  exact leO_ratio _ _ _ hab

theorem C15_spec_contains (u : Ulp) (s : Scores) (fnr fpr thr : Option (List ℚ)) (nb : Option ℕ)
    (xa : String) (ts l0 : List ℚ) (h : findSupportThresholds u s fnr fpr thr nb xa = .ok ts)
    (h0 : suppliedPoints u s fnr fpr thr = .ok l0) :
    C15.containsOK 0 l0 ts = true := by
  simp only [C15.containsOK, List.all_eq_true, List.any_eq_true, decide_eq_true_eq]
  intro v hv
  refine ⟨v, mem_of_supplied u s fnr fpr thr nb xa ts l0 h h0 v hv, ?_⟩
  simp [absQ]

theorem C15_spec_length (u : Ulp) (s : Scores) (fnr fpr thr : Option (List ℚ)) (nb : Option ℕ)
    (xa : String) (ts : List ℚ) (h : findSupportThresholds u s fnr fpr thr nb xa = .ok ts) :
    C15.lengthOK s fnr fpr thr nb ts.length = true := by
  simp only [C15.lengthOK, beq_iff_eq]
  exact findSupport_length u s fnr fpr thr nb xa ts h

theorem all_zip_oneMinus (l : List (Option ℚ)) :
    (l.zip (l.map oneMinus)).all (fun p => C15.nearO 0 p.2 (oneMinus p.1)) = true := by
  induction l with
  | nil => rfl
  | cons a l ih =>
    simp only [List.map_cons, List.zip_cons_cons, List.all_cons, nearO_self_c15, Bool.true_and]
    exact ih

theorem C15_spec_views (c : RocCurve) : C15.viewsOK 0 c.fnr c.fpr c.tpr c.tnr = true := by
  simp only [C15.viewsOK, RocCurve.tpr, RocCurve.tnr, List.length_map, beq_self_eq_true,
    Bool.true_and, Bool.and_eq_true]
  exact ⟨all_zip_oneMinus _, all_zip_oneMinus _⟩

/-! ### non-vacuity: the hypotheses are satisfiable -/

/-- a successful call on sorted data with ties, easy samples and `score_class = neg` -/
example : ∃ ts, findSupportThresholds Ulp.half (Scores.make [3, 1, 2, 2] [2, 0] 4 1 ⟨.neg, .pos⟩ false)
    (some [0, 1 / 2]) none (some [5]) (some 7) "tar" = .ok ts := by
  have := C15_total Ulp.half (Scores.make [3, 1, 2, 2] [2, 0] 4 1 ⟨.neg, .pos⟩ false)
    (by simp [Scores.make, length_sortQ]) (by simp [Scores.make, length_sortQ])
    (some [0, 1 / 2]) none (some [5]) (some 7) "tar"
  simpa [XAxis.ofString] using this

example : XAxis.ofString "tar" = some .tar := rfl

example : (Scores.make [3, 1, 2, 2] [2, 0] 4 1 ⟨.neg, .pos⟩ false).pos.Pairwise (· ≤ ·) := by
  simpa [Scores.make] using sortQ_pairwise [3, 1, 2, 2]

end SA
