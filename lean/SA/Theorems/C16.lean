/-
C16 — ROC confidence bands are well-formed envelopes of pointwise rectangles.

Modelled and proved: `roc_with_ci`, `pointwise_band_ci`, `simultaneous_joint_region_ci`
(SA/Model/RocCI.lean).  `fixed_width_band_ci`: see SA/Model/FixedWidth.lean and
SA/Theorems/C16Fwb.lean.
-/
import SA.Theorems.C13
import SA.Theorems.C15
import SA.Proofs.RocCI
import SA.Spec.C16

namespace SA
open Spec

/-! ### `_aggregate_rectangles` -/

/-- **C16 (envelope).** With `N` points and `N` rectangles, row `j` of the result is the min / max
over rectangle `j` itself and all rectangles `i` whose x-interval covers `x_j`
(`dxp[i].lo ≤ x_j ≤ dxp[i].hi`): its lower entry is a lower bound of all their lower entries and
is one of them; its upper entry is an upper bound of all their upper entries and is one of them. -/
theorem C16_aggregate_envelope (x : List ℚ) (dxp dyp : List Iv) (hx : x.length = dyp.length)
    (hd : dxp.length = dyp.length) (j : ℕ) (hj : j < dyp.length) :
    ∃ b, (aggregateRectangles x dxp dyp)[j]? = some b ∧
      (b.1 ≤ (dyp[j]).1 ∧
       (∀ i, ∀ hi : i < dyp.length,
          coversQ (dxp[i]'(by omega)) (x[j]'(by omega)) = true → b.1 ≤ (dyp[i]).1) ∧
       (b.1 = (dyp[j]).1 ∨ ∃ i, ∃ hi : i < dyp.length,
          coversQ (dxp[i]'(by omega)) (x[j]'(by omega)) = true ∧ b.1 = (dyp[i]).1)) ∧
      ((dyp[j]).2 ≤ b.2 ∧
       (∀ i, ∀ hi : i < dyp.length,
          coversQ (dxp[i]'(by omega)) (x[j]'(by omega)) = true → (dyp[i]).2 ≤ b.2) ∧
       (b.2 = (dyp[j]).2 ∨ ∃ i, ∃ hi : i < dyp.length,
          coversQ (dxp[i]'(by omega)) (x[j]'(by omega)) = true ∧ b.2 = (dyp[i]).2)) := by
  have hjx : j < x.length := by omega
  refine ⟨envelopeAt x[j] dyp[j] (dxp.zip dyp), ?_, ?_⟩
  · unfold aggregateRectangles
    have hz : (x.zip dyp)[j]? = some (x[j], dyp[j]) := by
      rw [List.getElem?_zip_eq_some]
      exact ⟨List.getElem?_eq_getElem hjx, List.getElem?_eq_getElem hj⟩
    rw [List.getElem?_map, hz]
    rfl
  · obtain ⟨⟨l1, l2, l3⟩, ⟨u1, u2, u3⟩⟩ := envelopeAt_spec x[j] dyp[j] (dxp.zip dyp)
    have hmem : ∀ i, ∀ hi : i < dyp.length, (dxp[i]'(by omega), dyp[i]) ∈ dxp.zip dyp := by
      intro i hi
      rw [List.mem_iff_getElem]
      refine ⟨i, by rw [List.length_zip]; omega, ?_⟩
      rw [List.getElem_zip]
    have hrev : ∀ r ∈ dxp.zip dyp, ∃ i, ∃ hi : i < dyp.length, r = (dxp[i]'(by omega), dyp[i]) := by
      intro r hr
      obtain ⟨i, hi, rfl⟩ := List.mem_iff_getElem.mp hr
      rw [List.length_zip] at hi
      exact ⟨i, by omega, by rw [List.getElem_zip]⟩
    refine ⟨⟨l1, ?_, ?_⟩, ⟨u1, ?_, ?_⟩⟩
    · intro i hi hc
      exact l2 _ (hmem i hi) hc
    · rcases l3 with h | ⟨r, hr, hc, he⟩
      · exact Or.inl h
      · obtain ⟨i, hi, rfl⟩ := hrev r hr
        exact Or.inr ⟨i, hi, hc, he⟩
    · intro i hi hc
      exact u2 _ (hmem i hi) hc
    · rcases u3 with h | ⟨r, hr, hc, he⟩
      · exact Or.inl h
      · obtain ⟨i, hi, rfl⟩ := hrev r hr
        exact Or.inr ⟨i, hi, hc, he⟩

/-- **C16 (ordered).** If every rectangle has `lo ≤ hi` then every row of the band has
`lower ≤ upper` (whatever the x-intervals are). -/
theorem C16_ordered (x : List ℚ) (dxp dyp : List Iv) (h : ∀ r ∈ dyp, r.1 ≤ r.2) :
    ∀ b ∈ aggregateRectangles x dxp dyp, b.1 ≤ b.2 := by
  intro b hb
  obtain ⟨xj, own, hown, rfl⟩ := mem_aggregateRectangles x dxp dyp b hb
  obtain ⟨⟨l1, _, _⟩, ⟨u1, _, _⟩⟩ := envelopeAt_spec xj own (dxp.zip dyp)
  exact le_trans l1 (le_trans (h own hown) u1)

/-- every entry of the band is an entry of one of the rectangles -/
theorem c16_aggregate_entries (x : List ℚ) (dxp dyp : List Iv) (b : Iv)
    (hb : b ∈ aggregateRectangles x dxp dyp) :
    (∃ r ∈ dyp, b.1 = r.1) ∧ (∃ r ∈ dyp, b.2 = r.2) := by
  obtain ⟨xj, own, hown, rfl⟩ := mem_aggregateRectangles x dxp dyp b hb
  obtain ⟨⟨_, _, l3⟩, ⟨_, _, u3⟩⟩ := envelopeAt_spec xj own (dxp.zip dyp)
  constructor
  · rcases l3 with h | ⟨r, hr, _, he⟩
    · exact ⟨own, hown, h⟩
    · exact ⟨r.2, (List.of_mem_zip hr).2, he⟩
  · rcases u3 with h | ⟨r, hr, _, he⟩
    · exact ⟨own, hown, h⟩
    · exact ⟨r.2, (List.of_mem_zip hr).2, he⟩

/-- **C16 (unit interval).** If all y-limits of the rectangles lie in `[0, 1]`, so does the band. -/
theorem C16_unit_interval (x : List ℚ) (dxp dyp : List Iv)
    (h : ∀ r ∈ dyp, (0 ≤ r.1 ∧ r.1 ≤ 1) ∧ (0 ≤ r.2 ∧ r.2 ≤ 1)) :
    ∀ b ∈ aggregateRectangles x dxp dyp, (0 ≤ b.1 ∧ b.1 ≤ 1) ∧ (0 ≤ b.2 ∧ b.2 ≤ 1) := by
  intro b hb
  obtain ⟨⟨r1, hr1, e1⟩, ⟨r2, hr2, e2⟩⟩ := c16_aggregate_entries x dxp dyp b hb
  rw [e1, e2]
  exact ⟨(h r1 hr1).1, (h r2 hr2).2⟩

theorem c16_nanFreeOK_lift (l : List Iv) : C16.nanFreeOK (l.map Iv.lift) = true := by
  simp [C16.nanFreeOK, Iv.lift]

/-- **C16 (no NaN).** On defined inputs (no NaN among the points and the rectangle limits) the
float computation — NumPy's NaN-propagating `min` / `max` reductions, comparisons that are false on
NaN, Python's builtin `min` / `max` — is total: it returns the rational band, one defined row per
point. -/
theorem C16_no_nan (x : List ℚ) (dxp dyp : List Iv) :
    aggregateRectanglesO (x.map some) (dxp.map Iv.lift) (dyp.map Iv.lift) =
      (aggregateRectangles x dxp dyp).map Iv.lift ∧
    C16.nanFreeOK (aggregateRectanglesO (x.map some) (dxp.map Iv.lift) (dyp.map Iv.lift)) = true ∧
    (aggregateRectanglesO (x.map some) (dxp.map Iv.lift) (dyp.map Iv.lift)).length =
      min x.length dyp.length := by
  rw [aggregateRectanglesO_lift]
  refine ⟨rfl, c16_nanFreeOK_lift _, ?_⟩
  rw [List.length_map, length_aggregateRectangles]

/-! ### `_apply_rule_of_three` -/

/-- **C16 (rule of three, the code's form).** A row is replaced by `(powA, 1)` exactly when
`p > (n-1)/n`; otherwise by `(0, 1 - powA)` exactly when `p < 1/n`; otherwise it is kept.
`p` is the rate over ALL samples of the class, `n` the number of SCORED samples. -/
theorem C16_rule_of_three (powA : ℚ) (n : ℕ) (p : ℚ) (c : Iv) :
    (p > ((n : ℚ) - 1) / (n : ℚ) → ruleOfThreeRow powA n p c = (powA, 1)) ∧
    (¬ p > ((n : ℚ) - 1) / (n : ℚ) → p < 1 / (n : ℚ) → ruleOfThreeRow powA n p c = (0, 1 - powA)) ∧
    (¬ p > ((n : ℚ) - 1) / (n : ℚ) → ¬ p < 1 / (n : ℚ) → ruleOfThreeRow powA n p c = c) := by
  unfold ruleOfThreeRow
  refine ⟨?_, ?_, ?_⟩
  · intro h; simp only [h, if_true]
  · intro h1 h2; simp only [h1, h2, if_true, if_false]
  · intro h1 h2; simp only [h1, h2, if_false]

/-- for a rate `k / n` with `0 ≤ k ≤ n` (an object without easy samples) the two triggers are
"`k = 0`" and "`k = n`" -/
theorem c16_rule_of_three_triggers (n k : ℕ) (hn : n ≠ 0) (hk : k ≤ n) :
    (((k : ℚ) / (n : ℚ) < 1 / (n : ℚ)) ↔ k = 0) ∧
    (((k : ℚ) / (n : ℚ) > ((n : ℚ) - 1) / (n : ℚ)) ↔ k = n) := by
  have hq : (0 : ℚ) < (n : ℚ) := by exact_mod_cast Nat.pos_of_ne_zero hn
  constructor
  · rw [div_lt_div_iff_of_pos_right hq]
    constructor
    · intro h
      have : k < 1 := by exact_mod_cast h
      omega
    · intro h; subst h; norm_num
  · rw [gt_iff_lt, div_lt_div_iff_of_pos_right hq]
    constructor
    · intro h
      have h' : (n : ℚ) < (k : ℚ) + 1 := by linarith
      have : n < k + 1 := by exact_mod_cast h'
      omega
    · intro h; subst h; linarith

/-- **C16 (rule of three, exactly 0 or 1).** For a rate `k / n`, `0 ≤ k ≤ n`, the row is replaced
exactly when the rate is `1` (by `(powA, 1)`) resp. `0` (by `(0, 1 - powA)`); rates `1/n`, …,
`(n-1)/n` keep their bootstrap interval. -/
theorem C16_rule_of_three_exact (powA : ℚ) (n k : ℕ) (hn : n ≠ 0) (hk : k ≤ n) (c : Iv) :
    ruleOfThreeRow powA n ((k : ℚ) / (n : ℚ)) c =
      if k = n then (powA, 1) else if k = 0 then (0, 1 - powA) else c := by
  obtain ⟨h0, h1⟩ := c16_rule_of_three_triggers n k hn hk
  obtain ⟨r1, r2, r3⟩ := C16_rule_of_three powA n ((k : ℚ) / (n : ℚ)) c
  by_cases hkn : k = n
  · rw [if_pos hkn]; exact r1 (h1.mpr hkn)
  · rw [if_neg hkn]
    have hn1 : ¬ (k : ℚ) / (n : ℚ) > ((n : ℚ) - 1) / (n : ℚ) := fun h => hkn (h1.mp h)
    by_cases hk0 : k = 0
    · rw [if_pos hk0]; exact r2 hn1 (h0.mpr hk0)
    · rw [if_neg hk0]; exact r3 hn1 (fun h => hk0 (h0.mp h))

/-- the same statement in terms of the value of the rate -/
theorem C16_rule_of_three_zero_one (powA : ℚ) (n k : ℕ) (hn : n ≠ 0) (hk : k ≤ n) (c : Iv) :
    ruleOfThreeRow powA n ((k : ℚ) / (n : ℚ)) c =
      if (k : ℚ) / (n : ℚ) = 1 then (powA, 1)
      else if (k : ℚ) / (n : ℚ) = 0 then (0, 1 - powA) else c := by
  rw [C16_rule_of_three_exact powA n k hn hk c]
  have hq : (n : ℚ) ≠ 0 := by exact_mod_cast hn
  have e1 : ((k : ℚ) / (n : ℚ) = 1) ↔ k = n := by
    rw [div_eq_one_iff_eq hq]; exact_mod_cast Iff.rfl
  have e0 : ((k : ℚ) / (n : ℚ) = 0) ↔ k = 0 := by
    rw [div_eq_zero_iff]
    constructor
    · rintro (h | h)
      · exact_mod_cast h
      · exact absurd h hq
    · intro h; left; exact_mod_cast h
  simp only [e1, e0]

/-- the substituted rows are ordered and lie in `[0, 1]` when `0 ≤ powA ≤ 1` -/
theorem c16_rule_of_three_rows (powA : ℚ) (h0 : 0 ≤ powA) (h1 : powA ≤ 1) :
    ((0 : ℚ) ≤ 1 - powA ∧ 1 - powA ≤ 1) ∧ ((0 : ℚ) ≤ 1 - powA) ∧ (powA ≤ 1) := by
  refine ⟨⟨by linarith, by linarith⟩, by linarith, h1⟩

/-- every output row of the rule of three is the input row or one of the two substitutes -/
theorem ruleOfThreeRow_cases (powA : ℚ) (n : ℕ) (p : ℚ) (c : Iv) :
    ruleOfThreeRow powA n p c = c ∨ ruleOfThreeRow powA n p c = (0, 1 - powA) ∨
      ruleOfThreeRow powA n p c = (powA, 1) := by
  unfold ruleOfThreeRow
  by_cases h2 : p > (((n : ℕ) : ℚ) - 1) / ((n : ℕ) : ℚ)
  · right; right; simp only [h2, if_true]
  · by_cases h1 : p < 1 / ((n : ℕ) : ℚ)
    · right; left; simp only [h1, h2, if_true, if_false]
    · left; simp only [h1, h2, if_false]

/-- the rule of three keeps rows ordered and within `[0, 1]` (for `0 ≤ powA ≤ 1`) -/
theorem ruleOfThreeRow_wf (powA : ℚ) (h0 : 0 ≤ powA) (h1 : powA ≤ 1) (n : ℕ) (p : ℚ) (c : Iv) :
    (c.1 ≤ c.2 → (ruleOfThreeRow powA n p c).1 ≤ (ruleOfThreeRow powA n p c).2) ∧
    (((0 ≤ c.1 ∧ c.1 ≤ 1) ∧ (0 ≤ c.2 ∧ c.2 ≤ 1)) →
      ((0 ≤ (ruleOfThreeRow powA n p c).1 ∧ (ruleOfThreeRow powA n p c).1 ≤ 1) ∧
       (0 ≤ (ruleOfThreeRow powA n p c).2 ∧ (ruleOfThreeRow powA n p c).2 ≤ 1))) := by
  rcases ruleOfThreeRow_cases powA n p c with h | h | h <;> rw [h]
  · exact ⟨id, id⟩
  · refine ⟨fun _ => ?_, fun _ => ⟨⟨le_refl _, by norm_num⟩, ?_, ?_⟩⟩ <;> simp only <;> linarith
  · refine ⟨fun _ => h1, fun _ => ⟨⟨h0, h1⟩, by norm_num, le_refl _⟩⟩

/-- with easy samples the code's trigger also fires for a non-zero rate: FNR `1/10` of an object
with 2 scored and 8 easy positives is below `1/2` (finding F7 of the design) -/
example (powA : ℚ) (c : Iv) : ruleOfThreeRow powA 2 (1 / 10) c = (0, 1 - powA) := by
  unfold ruleOfThreeRow; norm_num

/-! ### support thresholds of `roc_with_ci` -/

theorem findSupportCI_ok (u : Ulp) (s : Scores) (fnr fpr thr : Option (List ℚ)) (nb : Option ℕ)
    (nbExtra : ℕ) (xa : String) (ts : List ℚ)
    (h : findSupportThresholdsCI u s fnr fpr thr nb nbExtra xa = .ok ts) :
    ∃ l t0 t1 a b x, supportPoints u s fnr fpr thr nb = .ok l ∧
      (sortQ l).head? = some t0 ∧ (sortQ l).getLast? = some t1 ∧
      s.thresholdAtArr u .fnr (extraTargets s .fnr t0 t1 ((nbExtra - 4) / 2)) .linear = .ok a ∧
      s.thresholdAtArr u .fpr (extraTargets s .fpr t0 t1 (nbExtra - 4 - (nbExtra - 4) / 2)) .linear
        = .ok b ∧
      XAxis.ofString xa = some x ∧
      ts = orient x s.cfg.scoreClass (sortQ (((sortQ l ++ a) ++ b) ++ sentinelThresholds u s)) := by
  unfold findSupportThresholdsCI at h
  split at h
  · cases h
  · rename_i l hl
    unfold extendSupport at h
    simp only at h
    split at h
    · rename_i t0 t1 h0 h1
      split at h
      · cases h
      · rename_i a ha
        split at h
        · cases h
        · rename_i b hb
          split at h
          · cases h
          · rename_i x hx
            injection h with h
            exact ⟨l, t0, t1, a, b, x, hl, h0, h1, ha, hb, hx, h.symm⟩
    · cases h

/-- **C16 (support).** The thresholds of `roc_with_ci` are a permutation of: the plain support
points of `roc` (C15), the thresholds of the extra FNR and FPR targets beyond the range spanned by
them, and the four thresholds just outside the score ranges. -/
theorem C16_support_perm (u : Ulp) (s : Scores) (fnr fpr thr : Option (List ℚ)) (nb : Option ℕ)
    (nbExtra : ℕ) (xa : String) (ts : List ℚ)
    (h : findSupportThresholdsCI u s fnr fpr thr nb nbExtra xa = .ok ts) :
    ∃ l t0 t1 a b, supportPoints u s fnr fpr thr nb = .ok l ∧
      (sortQ l).head? = some t0 ∧ (sortQ l).getLast? = some t1 ∧
      s.thresholdAtArr u .fnr (extraTargets s .fnr t0 t1 ((nbExtra - 4) / 2)) .linear = .ok a ∧
      s.thresholdAtArr u .fpr (extraTargets s .fpr t0 t1 (nbExtra - 4 - (nbExtra - 4) / 2)) .linear
        = .ok b ∧
      ts.Perm (((l ++ a) ++ b) ++ sentinelThresholds u s) := by
  obtain ⟨l, t0, t1, a, b, x, hl, h0, h1, ha, hb, _, rfl⟩ :=
    findSupportCI_ok u s fnr fpr thr nb nbExtra xa ts h
  refine ⟨l, t0, t1, a, b, hl, h0, h1, ha, hb, ?_⟩
  refine (orient_perm x _ _).trans ((sortQ_perm _).trans ?_)
  exact (((sortQ_perm l).append_right a).append_right b).append_right _

/-- the four sentinel thresholds and every plain support point are among the thresholds -/
theorem C16_support_contains (u : Ulp) (s : Scores) (fnr fpr thr : Option (List ℚ)) (nb : Option ℕ)
    (nbExtra : ℕ) (xa : String) (ts : List ℚ)
    (h : findSupportThresholdsCI u s fnr fpr thr nb nbExtra xa = .ok ts) :
    (∀ t ∈ sentinelThresholds u s, t ∈ ts) ∧
    (∀ l, supportPoints u s fnr fpr thr nb = .ok l → ∀ t ∈ l, t ∈ ts) := by
  obtain ⟨l, _, _, a, b, hl, _, _, _, _, hperm⟩ :=
    C16_support_perm u s fnr fpr thr nb nbExtra xa ts h
  constructor
  · intro t ht
    exact hperm.mem_iff.mpr (List.mem_append_right _ ht)
  · intro l' hl' t ht
    rw [hl] at hl'
    injection hl' with hl'
    subst hl'
    exact hperm.mem_iff.mpr
      (List.mem_append_left _ (List.mem_append_left _ (List.mem_append_left _ ht)))

theorem c16_sentinelsOK_of_mem (u : Ulp) (s : Scores) (ts : List ℚ)
    (h : ∀ t ∈ sentinelThresholds u s, t ∈ ts) : C16.sentinelsOK u s ts = true := by
  simp only [C16.sentinelsOK, List.all_eq_true, List.contains_iff_mem]
  exact h

theorem c16_supportPoints_length (u : Ulp) (s : Scores) (fnr fpr thr : Option (List ℚ)) (nb : Option ℕ)
    (l : List ℚ) (hl : supportPoints u s fnr fpr thr nb = .ok l) :
    l.length = C15.expectedLength s fnr fpr thr nb := by
  have hf : findSupportThresholds u s fnr fpr thr nb "fnr" =
      .ok (orient .fnr s.cfg.scoreClass (sortQ l)) := by
    simp only [findSupportThresholds, hl, XAxis.ofString]
  have := findSupport_length u s fnr fpr thr nb "fnr" _ hf
  rw [← this, ((orient_perm _ _ _).trans (sortQ_perm l)).length_eq]

/-- **C16 (number of points).** `n = (points of the plain support, C15_length) + (extra FNR
targets) + (extra FPR targets) + 4`. -/
theorem C16_support_length (u : Ulp) (s : Scores) (fnr fpr thr : Option (List ℚ)) (nb : Option ℕ)
    (nbExtra : ℕ) (xa : String) (ts : List ℚ)
    (h : findSupportThresholdsCI u s fnr fpr thr nb nbExtra xa = .ok ts) :
    ∃ l t0 t1, supportPoints u s fnr fpr thr nb = .ok l ∧
      (sortQ l).head? = some t0 ∧ (sortQ l).getLast? = some t1 ∧
      C16.supportLengthOK s fnr fpr thr nb
        ((extraTargets s .fnr t0 t1 ((nbExtra - 4) / 2)).length +
         (extraTargets s .fpr t0 t1 (nbExtra - 4 - (nbExtra - 4) / 2)).length) ts.length = true := by
  obtain ⟨l, t0, t1, a, b, hl, h0, h1, ha, hb, hperm⟩ :=
    C16_support_perm u s fnr fpr thr nb nbExtra xa ts h
  refine ⟨l, t0, t1, hl, h0, h1, ?_⟩
  have la := thresholdAtArr_length u s _ _ _ _ ha
  have lb := thresholdAtArr_length u s _ _ _ _ hb
  have ll := c16_supportPoints_length u s fnr fpr thr nb l hl
  simp only [C16.supportLengthOK, beq_iff_eq]
  rw [hperm.length_eq]
  simp only [List.length_append, la, lb, ll, sentinelThresholds, List.length_cons, List.length_nil]
  omega

/-- **C16 (monotone).** As for `roc`, the count behind the named x-axis metric is non-decreasing
along the thresholds of `roc_with_ci`. -/
theorem C16_monotone (u : Ulp) (s : Scores) (hp : s.pos.Pairwise (· ≤ ·))
    (hn : s.neg.Pairwise (· ≤ ·)) (fnr fpr thr : Option (List ℚ)) (nb : Option ℕ) (nbExtra : ℕ)
    (xa : String) (x : XAxis) (hx : XAxis.ofString xa = some x) (ts : List ℚ)
    (h : findSupportThresholdsCI u s fnr fpr thr nb nbExtra xa = .ok ts) :
    (ts.map fun t => (s.cm (.fin t)).rateNum x.metric).Pairwise (· ≤ ·) := by
  obtain ⟨l, t0, t1, a, b, x', _, _, _, _, _, hx', rfl⟩ :=
    findSupportCI_ok u s fnr fpr thr nb nbExtra xa ts h
  rw [hx] at hx'
  injection hx' with hx'
  subst hx'
  rw [List.pairwise_map]
  have hs := orient_pairwise x s.cfg.scoreClass _
    (sortQ_pairwise (((sortQ l ++ a) ++ b) ++ sentinelThresholds u s))
  rw [ascending_eq] at hs
  exact hs.imp (fun {a b} hab => rateNum_le_of s hp hn x.metric a b hab)

/-- **C16 (accepts its arguments).** With both classes non-empty, a non-empty plain support (any
supplied point, or `nb_points ≥ 1`, or all scores) and a valid axis name the support computation
returns; with an invalid name it raises `ValueError`. -/
theorem C16_total (u : Ulp) (s : Scores) (hp : s.pos.length ≠ 0) (hn : s.neg.length ≠ 0)
    (fnr fpr thr : Option (List ℚ)) (nb : Option ℕ) (nbExtra : ℕ) (xa : String)
    (hne : C15.expectedLength s fnr fpr thr nb ≠ 0) :
    match XAxis.ofString xa with
    | some _ => ∃ ts, findSupportThresholdsCI u s fnr fpr thr nb nbExtra xa = .ok ts
    | none => findSupportThresholdsCI u s fnr fpr thr nb nbExtra xa = .error .valueError := by
  have hsup := C15_total u s hp hn fnr fpr thr nb "fnr"
  simp only [XAxis.ofString] at hsup
  obtain ⟨ts0, hts0⟩ := hsup
  obtain ⟨l, _, hl, _, _⟩ := findSupport_ok u s fnr fpr thr nb "fnr" ts0 hts0
  have hlen : (sortQ l).length ≠ 0 := by
    rw [length_sortQ, c16_supportPoints_length u s fnr fpr thr nb l hl]; exact hne
  obtain ⟨t0, h0⟩ : ∃ t0, (sortQ l).head? = some t0 := by
    cases hs : sortQ l with
    | nil => rw [hs] at hlen; exact absurd rfl hlen
    | cons a t => exact ⟨a, rfl⟩
  obtain ⟨t1, h1⟩ : ∃ t1, (sortQ l).getLast? = some t1 := by
    cases hs : sortQ l with
    | nil => rw [hs] at hlen; exact absurd rfl hlen
    | cons a t => exact ⟨_, List.getLast?_eq_some_getLast (List.cons_ne_nil a t)⟩
  obtain ⟨a, ha⟩ := thresholdAtArr_of_ne u s .fnr
    (extraTargets s .fnr t0 t1 ((nbExtra - 4) / 2)) .linear hp
  obtain ⟨b, hb⟩ := thresholdAtArr_of_ne u s .fpr
    (extraTargets s .fpr t0 t1 (nbExtra - 4 - (nbExtra - 4) / 2)) .linear hn
  cases hx : XAxis.ofString xa with
  | none => simp only [findSupportThresholdsCI, extendSupport, hl, h0, h1, ha, hb, hx]
  | some x =>
    refine ⟨orient x s.cfg.scoreClass
      (sortQ (((sortQ l ++ a) ++ b) ++ sentinelThresholds u s)), ?_⟩
    simp only [findSupportThresholdsCI, extendSupport, hl, h0, h1, ha, hb, hx]

/-! ### `roc_with_ci` -/

theorem c16_cm_p_ge (s : Scores) (t : ERat) :
    s.pos.length ≤ (s.cm t).p ∧ s.neg.length ≤ (s.cm t).n := by
  unfold Scores.cm CM.p CM.n
  cases s.cfg.scoreClass <;> simp only <;> omega

/-- exact FNR / FPR of the object at a threshold, as rationals -/
def Scores.fnrQ (s : Scores) (t : ℚ) : ℚ := ((s.cm (.fin t)).fn : ℚ) / ((s.cm (.fin t)).p : ℚ)
def Scores.fprQ (s : Scores) (t : ℚ) : ℚ := ((s.cm (.fin t)).fp : ℚ) / ((s.cm (.fin t)).n : ℚ)

/-- with a scored positive (negative) the FNR (FPR) is never NaN -/
theorem c16_rates_defined (s : Scores) (t : ℚ) :
    (s.pos.length ≠ 0 → (s.cm (.fin t)).fnr = some (s.fnrQ t)) ∧
    (s.neg.length ≠ 0 → (s.cm (.fin t)).fpr = some (s.fprQ t)) := by
  obtain ⟨h1, h2⟩ := c16_cm_p_ge s (.fin t)
  constructor
  · intro h
    have : (s.cm (.fin t)).p ≠ 0 := by omega
    simp only [CM.fnr, ratio, this, if_false, Scores.fnrQ]
  · intro h
    have : (s.cm (.fin t)).n ≠ 0 := by omega
    simp only [CM.fpr, ratio, this, if_false, Scores.fprQ]

theorem rocCIFrom_ok (s : Scores) (ts : List ℚ) (powPos powNeg : ℚ) (boot : BootCI)
    (c : RocCICurve) (h : rocCIFrom s ts powPos powNeg boot = .ok c) :
    s.pos.length ≠ 0 ∧ s.neg.length ≠ 0 ∧ c.thresholds = ts ∧
    c.fnr = ts.map (fun t => (s.cm (.fin t)).fnr) ∧ c.fpr = ts.map (fun t => (s.cm (.fin t)).fpr) ∧
    ∃ cf cg, applyRuleOfThreeO powPos c.fnr (boot c.fnr c.fpr).1 s.pos.length = .ok cf ∧
      applyRuleOfThreeO powNeg c.fpr (boot c.fnr c.fpr).2 s.neg.length = .ok cg ∧
      c.fnrCI = aggregateRectanglesO c.fpr cg cf ∧ c.fprCI = aggregateRectanglesO c.fnr cf cg := by
  unfold rocCIFrom at h
  simp only at h
  split at h
  · cases h
  · rename_i hne
    split at h
    · cases h
    · rename_i cf hcf
      split at h
      · cases h
      · rename_i cg hcg
        injection h with h
        subst h
        refine ⟨fun h0 => hne (Or.inr h0), fun h0 => hne (Or.inl h0), rfl, rfl, rfl, cf, cg, hcf, hcg,
          rfl, rfl⟩

/-- **C16 (rule of three on an object without easy samples).** For a `Scores` object with
`nb_easy_pos = 0` (resp. `nb_easy_neg = 0`) — the objects C16 quantifies over — the FNR (FPR) row at
any threshold is replaced exactly when the observed rate is exactly `1` (by `(powA, 1)`) or exactly
`0` (by `(0, 1 - powA)`), and keeps its bootstrap interval otherwise. -/
theorem C16_rule_of_three_scores (s : Scores) (hp : s.pos.Pairwise (· ≤ ·))
    (hn : s.neg.Pairwise (· ≤ ·)) (t : ℚ) (powA : ℚ) (c : Iv) :
    (s.easyPos = 0 → s.pos.length ≠ 0 →
      ruleOfThreeRow powA s.pos.length (s.fnrQ t) c =
        if s.fnrQ t = 1 then (powA, 1) else if s.fnrQ t = 0 then (0, 1 - powA) else c) ∧
    (s.easyNeg = 0 → s.neg.length ≠ 0 →
      ruleOfThreeRow powA s.neg.length (s.fprQ t) c =
        if s.fprQ t = 1 then (powA, 1) else if s.fprQ t = 0 then (0, 1 - powA) else c) := by
  obtain ⟨h1, h2⟩ := cm_totals_sorted s hp hn (.fin t)
  constructor
  · intro he hne
    have hpn : (s.cm (.fin t)).p = s.pos.length := by rw [h1, he, Nat.add_zero]
    have hle : (s.cm (.fin t)).fn ≤ s.pos.length := by
      rw [← hpn]; unfold CM.p; omega
    unfold Scores.fnrQ
    rw [hpn]
    exact C16_rule_of_three_zero_one powA s.pos.length _ hne hle c
  · intro he hne
    have hpn : (s.cm (.fin t)).n = s.neg.length := by rw [h2, he, Nat.add_zero]
    have hle : (s.cm (.fin t)).fp ≤ s.neg.length := by
      rw [← hpn]; unfold CM.n; omega
    unfold Scores.fprQ
    rw [hpn]
    exact C16_rule_of_three_zero_one powA s.neg.length _ hne hle c

/-- **C16 (rates match).** Whenever `roc_with_ci` returns, its thresholds are those of the support
computation and entry `i` of FNR / FPR is the object's FNR / FPR at threshold `i` (never NaN). -/
theorem C16_rates_match (u : Ulp) (s : Scores) (fnr fpr thr : Option (List ℚ)) (nb : Option ℕ)
    (xa : String) (powPos powNeg : ℚ) (boot : BootCI) (c : RocCICurve)
    (h : rocWithCI u s fnr fpr thr nb xa powPos powNeg boot = .ok c) :
    findSupportThresholdsCI u s fnr fpr thr nb rocCIExtraPoints xa = .ok c.thresholds ∧
    c.fnr = c.thresholds.map (fun t => (s.cm (.fin t)).fnr) ∧
    c.fpr = c.thresholds.map (fun t => (s.cm (.fin t)).fpr) ∧
    c.fnr = (c.thresholds.map s.fnrQ).map some ∧ c.fpr = (c.thresholds.map s.fprQ).map some := by
  unfold rocWithCI at h
  split at h
  · cases h
  · rename_i ts hts
    obtain ⟨hp, hn, ht, hf, hg, _⟩ := rocCIFrom_ok s ts powPos powNeg boot c h
    subst ht
    refine ⟨hts, hf, hg, ?_, ?_⟩
    · rw [hf, List.map_map]
      exact List.map_congr_left fun t _ => (c16_rates_defined s t).1 hp
    · rw [hg, List.map_map]
      exact List.map_congr_left fun t _ => (c16_rates_defined s t).2 hn

/-- **C16 (envelope of pointwise rectangles; the closed form).** With defined bootstrap intervals
`bf` (FNR) and `bg` (FPR), `roc_with_ci` returns
`fnr_band = aggregate(fpr, R(fpr, bg, n_neg), R(fnr, bf, n_pos))` and
`fpr_band = aggregate(fnr, R(fnr, bf, n_pos), R(fpr, bg, n_neg))`, where `R` substitutes the
rule-of-three rows: a pointwise interval is the bootstrap interval unless the rule of three fires,
and the band at a point is the envelope (`C16_aggregate_envelope`) of the rectangles
`[fnr interval] x [fpr interval]` covering it.  All rows are defined (no NaN). -/
theorem C16_closed_form (s : Scores) (ts : List ℚ) (powPos powNeg : ℚ) (boot : BootCI)
    (c : RocCICurve) (h : rocCIFrom s ts powPos powNeg boot = .ok c) (bf bg : List Iv)
    (hb : boot c.fnr c.fpr = (bf.map Iv.lift, bg.map Iv.lift)) :
    c.fnr = (ts.map s.fnrQ).map some ∧ c.fpr = (ts.map s.fprQ).map some ∧
    c.fnrCI = (aggregateRectangles (ts.map s.fprQ)
        (ruleOfThreeRows powNeg s.neg.length (ts.map s.fprQ) bg)
        (ruleOfThreeRows powPos s.pos.length (ts.map s.fnrQ) bf)).map Iv.lift ∧
    c.fprCI = (aggregateRectangles (ts.map s.fnrQ)
        (ruleOfThreeRows powPos s.pos.length (ts.map s.fnrQ) bf)
        (ruleOfThreeRows powNeg s.neg.length (ts.map s.fprQ) bg)).map Iv.lift := by
  obtain ⟨hp, hn, _, hf, hg, cf, cg, hcf, hcg, e1, e2⟩ := rocCIFrom_ok s ts powPos powNeg boot c h
  have hf' : c.fnr = (ts.map s.fnrQ).map some := by
    rw [hf, List.map_map]
    exact List.map_congr_left fun t _ => (c16_rates_defined s t).1 hp
  have hg' : c.fpr = (ts.map s.fprQ).map some := by
    rw [hg, List.map_map]
    exact List.map_congr_left fun t _ => (c16_rates_defined s t).2 hn
  rw [hb] at hcf hcg
  simp only at hcf hcg
  rw [hf', (applyRuleOfThreeO_lift powPos _ bf _ hp).2] at hcf
  rw [hg', (applyRuleOfThreeO_lift powNeg _ bg _ hn).2] at hcg
  injection hcf with hcf
  injection hcg with hcg
  refine ⟨hf', hg', ?_, ?_⟩
  · rw [e1, hg', ← hcf, ← hcg, aggregateRectanglesO_lift]
  · rw [e2, hf', ← hcf, ← hcg, aggregateRectanglesO_lift]

theorem length_ruleOfThreeRows (powA : ℚ) (n : ℕ) (p : List ℚ) (ci : List Iv) :
    (ruleOfThreeRows powA n p ci).length = min p.length ci.length := by
  simp [ruleOfThreeRows]

/-- **C16 (length / shape).** If the bootstrap returns one interval per point, both bands have
exactly one row per threshold (the `(n, 2)` shape). -/
theorem C16_length (s : Scores) (ts : List ℚ) (powPos powNeg : ℚ) (boot : BootCI)
    (c : RocCICurve) (h : rocCIFrom s ts powPos powNeg boot = .ok c) (bf bg : List Iv)
    (hb : boot c.fnr c.fpr = (bf.map Iv.lift, bg.map Iv.lift))
    (lf : bf.length = ts.length) (lg : bg.length = ts.length) :
    C16.shapeOK c.thresholds.length c.fnrCI = true ∧ C16.shapeOK c.thresholds.length c.fprCI = true ∧
    c.fnr.length = c.thresholds.length ∧ c.fpr.length = c.thresholds.length := by
  obtain ⟨e1, e2, e3, e4⟩ := C16_closed_form s ts powPos powNeg boot c h bf bg hb
  obtain ⟨_, _, ht, _⟩ := rocCIFrom_ok s ts powPos powNeg boot c h
  simp only [C16.shapeOK, beq_iff_eq, e1, e2, e3, e4, ht, List.length_map,
    length_aggregateRectangles, length_ruleOfThreeRows, lf, lg, Nat.min_self, and_self]

theorem c16_orderedOK_lift (l : List Iv) (h : ∀ b ∈ l, b.1 ≤ b.2) :
    C16.orderedOK (l.map Iv.lift) = true := by
  simp only [C16.orderedOK, List.all_map, List.all_eq_true, Function.comp, Iv.lift, leN,
    decide_eq_true_eq]
  exact h

theorem c16_unitOK_lift (l : List Iv) (h : ∀ b ∈ l, (0 ≤ b.1 ∧ b.1 ≤ 1) ∧ (0 ≤ b.2 ∧ b.2 ≤ 1)) :
    C16.unitOK 0 (l.map Iv.lift) = true := by
  simp only [C16.unitOK, List.all_map, List.all_eq_true, Function.comp, Iv.lift, leN,
    decide_eq_true_eq, Bool.and_eq_true, neg_zero, add_zero]
  intro b hb
  obtain ⟨⟨a1, a2⟩, ⟨a3, a4⟩⟩ := h b hb
  exact ⟨⟨⟨a1, a2⟩, a3⟩, a4⟩

theorem mem_ruleOfThreeRows (powA : ℚ) (n : ℕ) (p : List ℚ) (ci : List Iv) (r : Iv)
    (hr : r ∈ ruleOfThreeRows powA n p ci) : ∃ pj, ∃ cj ∈ ci, r = ruleOfThreeRow powA n pj cj := by
  unfold ruleOfThreeRows at hr
  obtain ⟨q, hq, rfl⟩ := List.mem_map.mp hr
  exact ⟨q.1, q.2, (List.of_mem_zip hq).2, rfl⟩

/-- **C16 (well-formed bands of `roc_with_ci`).** If the bootstrap intervals are defined, ordered
and within `[0, 1]` (C13: quantile limits are ordered and lie within the range of the replicates,
which are rates) and `0 ≤ pow(alpha, 1/n) ≤ 1`, then both bands are NaN-free, ordered and within
`[0, 1]`. -/
theorem C16_roc_wellformed (s : Scores) (ts : List ℚ) (powPos powNeg : ℚ) (boot : BootCI)
    (c : RocCICurve) (h : rocCIFrom s ts powPos powNeg boot = .ok c) (bf bg : List Iv)
    (hb : boot c.fnr c.fpr = (bf.map Iv.lift, bg.map Iv.lift))
    (hp0 : 0 ≤ powPos) (hp1 : powPos ≤ 1) (hn0 : 0 ≤ powNeg) (hn1 : powNeg ≤ 1)
    (of : ∀ r ∈ bf, r.1 ≤ r.2) (og : ∀ r ∈ bg, r.1 ≤ r.2)
    (uf : ∀ r ∈ bf, (0 ≤ r.1 ∧ r.1 ≤ 1) ∧ (0 ≤ r.2 ∧ r.2 ≤ 1))
    (ug : ∀ r ∈ bg, (0 ≤ r.1 ∧ r.1 ≤ 1) ∧ (0 ≤ r.2 ∧ r.2 ≤ 1)) :
    (C16.nanFreeOK c.fnrCI = true ∧ C16.orderedOK c.fnrCI = true ∧ C16.unitOK 0 c.fnrCI = true) ∧
    (C16.nanFreeOK c.fprCI = true ∧ C16.orderedOK c.fprCI = true ∧ C16.unitOK 0 c.fprCI = true) := by
  obtain ⟨_, _, e3, e4⟩ := C16_closed_form s ts powPos powNeg boot c h bf bg hb
  have ordF : ∀ r ∈ ruleOfThreeRows powPos s.pos.length (ts.map s.fnrQ) bf, r.1 ≤ r.2 := by
    intro r hr
    obtain ⟨pj, cj, hcj, rfl⟩ := mem_ruleOfThreeRows _ _ _ _ r hr
    exact (ruleOfThreeRow_wf powPos hp0 hp1 _ pj cj).1 (of cj hcj)
  have ordG : ∀ r ∈ ruleOfThreeRows powNeg s.neg.length (ts.map s.fprQ) bg, r.1 ≤ r.2 := by
    intro r hr
    obtain ⟨pj, cj, hcj, rfl⟩ := mem_ruleOfThreeRows _ _ _ _ r hr
    exact (ruleOfThreeRow_wf powNeg hn0 hn1 _ pj cj).1 (og cj hcj)
  have unF : ∀ r ∈ ruleOfThreeRows powPos s.pos.length (ts.map s.fnrQ) bf,
      (0 ≤ r.1 ∧ r.1 ≤ 1) ∧ (0 ≤ r.2 ∧ r.2 ≤ 1) := by
    intro r hr
    obtain ⟨pj, cj, hcj, rfl⟩ := mem_ruleOfThreeRows _ _ _ _ r hr
    exact (ruleOfThreeRow_wf powPos hp0 hp1 _ pj cj).2 (uf cj hcj)
  have unG : ∀ r ∈ ruleOfThreeRows powNeg s.neg.length (ts.map s.fprQ) bg,
      (0 ≤ r.1 ∧ r.1 ≤ 1) ∧ (0 ≤ r.2 ∧ r.2 ≤ 1) := by
    intro r hr
    obtain ⟨pj, cj, hcj, rfl⟩ := mem_ruleOfThreeRows _ _ _ _ r hr
    exact (ruleOfThreeRow_wf powNeg hn0 hn1 _ pj cj).2 (ug cj hcj)
  rw [e3, e4]
  exact ⟨⟨c16_nanFreeOK_lift _, c16_orderedOK_lift _ (C16_ordered _ _ _ ordF),
      c16_unitOK_lift _ (C16_unit_interval _ _ _ unF)⟩,
    ⟨c16_nanFreeOK_lift _, c16_orderedOK_lift _ (C16_ordered _ _ _ ordG),
      c16_unitOK_lift _ (C16_unit_interval _ _ _ unG)⟩⟩

theorem rocCIFrom_total (s : Scores) (ts : List ℚ) (powPos powNeg : ℚ) (boot : BootCI)
    (hp : s.pos.length ≠ 0) (hn : s.neg.length ≠ 0) :
    ∃ c, rocCIFrom s ts powPos powNeg boot = .ok c := by
  unfold rocCIFrom applyRuleOfThreeO
  simp only [hp, hn, or_self, if_false]
  exact ⟨_, rfl⟩

/-- **C16 (accepts its arguments, `roc_with_ci`).** Under the hypotheses of `C16_total` and a
valid axis name, `roc_with_ci` returns a curve. -/
theorem C16_roc_total (u : Ulp) (s : Scores) (hp : s.pos.length ≠ 0) (hn : s.neg.length ≠ 0)
    (fnr fpr thr : Option (List ℚ)) (nb : Option ℕ) (xa : String) (x : XAxis)
    (hx : XAxis.ofString xa = some x) (hne : C15.expectedLength s fnr fpr thr nb ≠ 0)
    (powPos powNeg : ℚ) (boot : BootCI) :
    ∃ c, rocWithCI u s fnr fpr thr nb xa powPos powNeg boot = .ok c := by
  have := C16_total u s hp hn fnr fpr thr nb rocCIExtraPoints xa hne
  rw [hx] at this
  obtain ⟨ts, hts⟩ := this
  obtain ⟨c, hc⟩ := rocCIFrom_total s ts powPos powNeg boot hp hn
  exact ⟨c, by simp only [rocWithCI, hts, hc]⟩

/-! ### identity sampler -/

theorem c16_filterMap_replicate_some (N : ℕ) (th : ℚ) :
    (List.replicate N (some th)).filterMap id = List.replicate N th := by
  induction N with
  | zero => rfl
  | succ n ih =>
    rw [List.replicate_succ, List.replicate_succ, List.filterMap_cons]
    simp only [id]
    exact congrArg (th :: ·) ih

theorem c16_qcore_const (v : List ℚ) (th : ℚ) (hne : v.length ≠ 0) (hall : ∀ x ∈ v, x = th) (q : ℚ) :
    qcore v q = th := by
  unfold qcore
  simp only
  rw [hall _ (getD_mem v _ (clampIdx_lt _ _ hne)), hall _ (getD_mem v _ (clampIdx_lt _ _ hne))]
  ring

theorem c16_quantileLinear_const (N : ℕ) (hN : N ≠ 0) (th q : ℚ) :
    quantileLinear (List.replicate N (some th)) q = some th := by
  rw [quantileLinear_eq, c16_filterMap_replicate_some]
  have hl : (sortQ (List.replicate N th)).length ≠ 0 := by
    rw [length_sortQ, List.length_replicate]; exact hN
  rw [if_neg hl]
  congr 1
  apply c16_qcore_const _ _ hl
  intro x hx
  exact List.eq_of_mem_replicate ((sortQ_perm _).mem_iff.mp hx)

/-- **C16 (identity sampler, pointwise interval).** If every bootstrap replicate equals the point
estimate — the identity sampler — the quantile, BC and BCa limits are all `(estimate, estimate)`,
whatever the normal cdf / ppf and power oracles return. -/
theorem C16_identity_interval (nrm : Normal) (p15 : ℚ → ℚ) (m : BootMethod) (N : ℕ) (hN : N ≠ 0)
    (th alpha : ℚ) :
    bootstrapCI nrm p15 m (List.replicate N (some th)) th alpha = (some th, some th) := by
  have hf : ∃ p0, fracLe (List.replicate N (some th)) th = some p0 := by
    unfold fracLe
    rw [c16_filterMap_replicate_some]
    simp only [List.length_replicate, hN, if_false]
    exact ⟨_, rfl⟩
  obtain ⟨p0, hp0⟩ := hf
  cases m <;> simp only [bootstrapCI, hp0, c16_quantileLinear_const N hN]

/-- **C16 (identity sampler, closed form).** Under the identity sampler the pointwise intervals
are `(e, e)` with `e` the point estimate (`eF = fnr(threshold_at_fpr(fpr))`,
`eG = fpr(threshold_at_fnr(fnr))` of the object), except for the rule-of-three rows, and
`roc_with_ci` returns exactly
`fnr_band = aggregate(fpr, R(fpr, (eG, eG), n_neg), R(fnr, (eF, eF), n_pos))`,
`fpr_band = aggregate(fnr, R(fnr, (eF, eF), n_pos), R(fpr, (eG, eG), n_neg))`. -/
theorem C16_identity_closed_form (s : Scores) (ts : List ℚ) (powPos powNeg : ℚ) (eF eG : List ℚ)
    (c : RocCICurve)
    (h : rocCIFrom s ts powPos powNeg (identityBoot (eF.map some) (eG.map some)) = .ok c) :
    c.fnrCI = (aggregateRectangles (ts.map s.fprQ)
        (ruleOfThreeRows powNeg s.neg.length (ts.map s.fprQ) (eG.map fun e => (e, e)))
        (ruleOfThreeRows powPos s.pos.length (ts.map s.fnrQ) (eF.map fun e => (e, e)))).map Iv.lift ∧
    c.fprCI = (aggregateRectangles (ts.map s.fnrQ)
        (ruleOfThreeRows powPos s.pos.length (ts.map s.fnrQ) (eF.map fun e => (e, e)))
        (ruleOfThreeRows powNeg s.neg.length (ts.map s.fprQ) (eG.map fun e => (e, e)))).map Iv.lift := by
  have hb : identityBoot (eF.map some) (eG.map some) c.fnr c.fpr =
      ((eF.map fun e => (e, e)).map Iv.lift, (eG.map fun e => (e, e)).map Iv.lift) := by
    simp only [identityBoot, List.map_map]
    rfl
  obtain ⟨_, _, e3, e4⟩ := C16_closed_form s ts powPos powNeg _ c h _ _ hb
  exact ⟨e3, e4⟩

/-! ### the experimental band functions -/

theorem c16_map_sjrRow (delta : ℚ) (p : List ℚ) :
    (p.map some).map (sjrRow delta) = (p.map fun v => ((v - delta, v + delta) : Iv)).map Iv.lift := by
  rw [List.map_map, List.map_map]
  rfl

/-- **C16 (simultaneous joint region).** With `delta ≥ 0` for both classes every rectangle
`(p - delta, p + delta)` is ordered, so both bands are NaN-free, ordered and have one row per
threshold; the bands are the envelopes of those rectangles. -/
theorem C16_sjr_ordered (u : Ulp) (s : Scores) (hp : s.pos.length ≠ 0) (hn : s.neg.length ≠ 0)
    (fnr fpr thr : Option (List ℚ)) (nb : Option ℕ) (dPos dNeg : ℚ) (h0 : 0 ≤ dPos) (h1 : 0 ≤ dNeg)
    (c : RocCICurve) (h : simultaneousJointRegionCI u s fnr fpr thr nb dPos dNeg = .ok c) :
    findSupportThresholds u s fnr fpr thr nb "fnr" = .ok c.thresholds ∧
    c.fnr = (c.thresholds.map s.fnrQ).map some ∧ c.fpr = (c.thresholds.map s.fprQ).map some ∧
    c.fnrCI = (aggregateRectangles (c.thresholds.map s.fprQ)
      ((c.thresholds.map s.fprQ).map fun v => (v - dNeg, v + dNeg))
      ((c.thresholds.map s.fnrQ).map fun v => (v - dPos, v + dPos))).map Iv.lift ∧
    c.fprCI = (aggregateRectangles (c.thresholds.map s.fnrQ)
      ((c.thresholds.map s.fnrQ).map fun v => (v - dPos, v + dPos))
      ((c.thresholds.map s.fprQ).map fun v => (v - dNeg, v + dNeg))).map Iv.lift ∧
    (C16.nanFreeOK c.fnrCI = true ∧ C16.orderedOK c.fnrCI = true ∧
      C16.shapeOK c.thresholds.length c.fnrCI = true) ∧
    (C16.nanFreeOK c.fprCI = true ∧ C16.orderedOK c.fprCI = true ∧
      C16.shapeOK c.thresholds.length c.fprCI = true) := by
  unfold simultaneousJointRegionCI at h
  split at h
  · cases h
  · rename_i ts hts
    injection h with h
    subst h
    simp only
    have hf : (ts.map fun t => (s.cm (.fin t)).fnr) = (ts.map s.fnrQ).map some := by
      rw [List.map_map]
      exact List.map_congr_left fun t _ => (c16_rates_defined s t).1 hp
    have hg : (ts.map fun t => (s.cm (.fin t)).fpr) = (ts.map s.fprQ).map some := by
      rw [List.map_map]
      exact List.map_congr_left fun t _ => (c16_rates_defined s t).2 hn
    have oF : ∀ r ∈ (ts.map s.fnrQ).map (fun v => ((v - dPos, v + dPos) : Iv)), r.1 ≤ r.2 := by
      intro r hr
      obtain ⟨v, _, rfl⟩ := List.mem_map.mp hr
      simp only; linarith
    have oG : ∀ r ∈ (ts.map s.fprQ).map (fun v => ((v - dNeg, v + dNeg) : Iv)), r.1 ≤ r.2 := by
      intro r hr
      obtain ⟨v, _, rfl⟩ := List.mem_map.mp hr
      simp only; linarith
    rw [hf, hg, c16_map_sjrRow, c16_map_sjrRow, aggregateRectanglesO_lift, aggregateRectanglesO_lift]
    refine ⟨hts, rfl, rfl, rfl, rfl,
      ⟨c16_nanFreeOK_lift _, c16_orderedOK_lift _ (C16_ordered _ _ _ oF), ?_⟩,
      ⟨c16_nanFreeOK_lift _, c16_orderedOK_lift _ (C16_ordered _ _ _ oG), ?_⟩⟩ <;>
    simp only [C16.shapeOK, beq_iff_eq, List.length_map, length_aggregateRectangles, Nat.min_self]

/-- **C16 (pointwise band).** `pointwise_band_ci` returns, on the plain support with
`x_axis = "fnr"`, the pointwise intervals themselves: the bootstrap intervals with the
rule-of-three rows substituted; they are NaN-free, and ordered if the bootstrap intervals are
ordered and `0 ≤ pow ≤ 1`. -/
theorem C16_pointwise_band (u : Ulp) (s : Scores) (fnr fpr thr : Option (List ℚ)) (nb : Option ℕ)
    (powPos powNeg : ℚ) (boot : BootCI) (c : RocCICurve)
    (h : pointwiseBandCI u s fnr fpr thr nb powPos powNeg boot = .ok c) (bf bg : List Iv)
    (hb : boot c.fnr c.fpr = (bf.map Iv.lift, bg.map Iv.lift)) :
    findSupportThresholds u s fnr fpr thr nb "fnr" = .ok c.thresholds ∧
    c.fnr = (c.thresholds.map s.fnrQ).map some ∧ c.fpr = (c.thresholds.map s.fprQ).map some ∧
    c.fnrCI = (ruleOfThreeRows powPos s.pos.length (c.thresholds.map s.fnrQ) bf).map Iv.lift ∧
    c.fprCI = (ruleOfThreeRows powNeg s.neg.length (c.thresholds.map s.fprQ) bg).map Iv.lift ∧
    (0 ≤ powPos → powPos ≤ 1 → (∀ r ∈ bf, r.1 ≤ r.2) → C16.orderedOK c.fnrCI = true) ∧
    (0 ≤ powNeg → powNeg ≤ 1 → (∀ r ∈ bg, r.1 ≤ r.2) → C16.orderedOK c.fprCI = true) := by
  unfold pointwiseBandCI at h
  split at h
  · cases h
  · rename_i ts hts
    simp only at h
    split at h
    · cases h
    · rename_i hne
      have hp : s.pos.length ≠ 0 := fun h0 => hne (Or.inr h0)
      have hn : s.neg.length ≠ 0 := fun h0 => hne (Or.inl h0)
      have hf : (ts.map fun t => (s.cm (.fin t)).fnr) = (ts.map s.fnrQ).map some := by
        rw [List.map_map]
        exact List.map_congr_left fun t _ => (c16_rates_defined s t).1 hp
      have hg : (ts.map fun t => (s.cm (.fin t)).fpr) = (ts.map s.fprQ).map some := by
        rw [List.map_map]
        exact List.map_congr_left fun t _ => (c16_rates_defined s t).2 hn
      split at h
      · cases h
      · rename_i cf hcf
        split at h
        · cases h
        · rename_i cg hcg
          injection h with h
          subst h
          simp only at hb ⊢
          rw [hb] at hcf hcg
          simp only at hcf hcg
          rw [hf, (applyRuleOfThreeO_lift powPos _ bf _ hp).2] at hcf
          rw [hg, (applyRuleOfThreeO_lift powNeg _ bg _ hn).2] at hcg
          injection hcf with hcf
          injection hcg with hcg
          subst hcf
          subst hcg
          refine ⟨hts, hf, hg, rfl, rfl, ?_, ?_⟩
          · intro a0 a1 ho
            apply c16_orderedOK_lift
            intro r hr
            obtain ⟨pj, cj, hcj, rfl⟩ := mem_ruleOfThreeRows _ _ _ _ r hr
            exact (ruleOfThreeRow_wf powPos a0 a1 _ pj cj).1 (ho cj hcj)
          · intro a0 a1 ho
            apply c16_orderedOK_lift
            intro r hr
            obtain ⟨pj, cj, hcj, rfl⟩ := mem_ruleOfThreeRows _ _ _ _ r hr
            exact (ruleOfThreeRow_wf powNeg a0 a1 _ pj cj).1 (ho cj hcj)

/-! ### the executable spec clauses hold of the model (eps = 0) -/

theorem c16_rowNear_self (a : OIv) : C16.rowNear 0 a a = true := by
  simp only [C16.rowNear, nearO_self_c15, Bool.and_self]

theorem c16_bandNear_self (m : List OIv) : C16.bandNear 0 m m = true := by
  simp only [C16.bandNear, beq_self_eq_true, Bool.true_and, List.all_eq_true]
  intro p hp
  induction m with
  | nil => cases hp
  | cons a m ih =>
    rw [List.zip_cons_cons, List.mem_cons] at hp
    rcases hp with rfl | hp
    · exact c16_rowNear_self a
    · exact ih hp

theorem C16_spec_envelope (x : List (Option ℚ)) (dxp dyp : List OIv) :
    C16.envelopeOK 0 x dxp dyp (aggregateRectanglesO x dxp dyp) = true := c16_bandNear_self _

theorem C16_spec_rule_of_three (powA : ℚ) (n : ℕ) (p : List (Option ℚ)) (ci out : List OIv)
    (h : applyRuleOfThreeO powA p ci n = .ok out) : C16.ruleOfThreeOK 0 powA n p ci out = true := by
  simp only [C16.ruleOfThreeOK, h]
  exact c16_bandNear_self _

/-- the curve returned by the model of `roc_with_ci` satisfies the executable closed-form clause -/
theorem C16_spec_closed_form (s : Scores) (ts : List ℚ) (powPos powNeg : ℚ) (boot : BootCI)
    (c : RocCICurve) (h : rocCIFrom s ts powPos powNeg boot = .ok c) :
    C16.closedFormOK 0 powPos powNeg s.pos.length s.neg.length c.fnr c.fpr c.fnr c.fpr
      (boot c.fnr c.fpr).1 (boot c.fnr c.fpr).2 c.fnrCI c.fprCI = true := by
  obtain ⟨_, _, _, _, _, cf, cg, hcf, hcg, e1, e2⟩ := rocCIFrom_ok s ts powPos powNeg boot c h
  simp only [C16.closedFormOK, hcf, hcg, e1, e2, c16_bandNear_self, Bool.and_self]

/-- the thresholds of the model of `roc_with_ci` satisfy the executable support clauses -/
theorem C16_spec_support (u : Ulp) (s : Scores) (fnr fpr thr : Option (List ℚ)) (nb : Option ℕ)
    (nbExtra : ℕ) (xa : String) (ts : List ℚ)
    (h : findSupportThresholdsCI u s fnr fpr thr nb nbExtra xa = .ok ts) :
    C16.sentinelsOK u s ts = true :=
  c16_sentinelsOK_of_mem u s ts (C16_support_contains u s fnr fpr thr nb nbExtra xa ts h).1

/-! ### non-vacuity: the hypotheses are satisfiable -/

/-- a `Scores` object with ties, both classes non-empty, `score_class = neg` -/
def c16Example : Scores := Scores.make [3, 1, 2, 2] [2, 0] 0 0 ⟨.neg, .pos⟩ false

theorem c16Example_pos : c16Example.pos.length ≠ 0 := by simp [c16Example, Scores.make, length_sortQ]
theorem c16Example_neg : c16Example.neg.length ≠ 0 := by simp [c16Example, Scores.make, length_sortQ]

/-- `roc_with_ci` returns on it (all scores as support, identity sampler) -/
example : ∃ c, rocWithCI Ulp.half c16Example none none none none "tar" (1 / 2) (1 / 3)
    (identityBoot [] []) = .ok c :=
  C16_roc_total Ulp.half c16Example c16Example_pos c16Example_neg none none none none "tar" .tar rfl
    (by simp [C15.expectedLength, C15.optLen, c16Example, Scores.make, length_sortQ]) _ _ _

example : ∃ c, rocCIFrom c16Example [1, 2] (1 / 2) (1 / 3)
    (identityBoot ([0, 1 / 2].map some) ([1, 1 / 2].map some)) = .ok c :=
  rocCIFrom_total _ _ _ _ _ c16Example_pos c16Example_neg

/-- rectangles that are ordered and within `[0, 1]`, three points -/
example : ∀ r ∈ ([(0, 1 / 2), (1 / 4, 1), (1 / 2, 1 / 2)] : List Iv),
    r.1 ≤ r.2 ∧ (0 ≤ r.1 ∧ r.1 ≤ 1) ∧ (0 ≤ r.2 ∧ r.2 ≤ 1) := by
  intro r hr
  simp only [List.mem_cons, List.not_mem_nil, or_false] at hr
  rcases hr with rfl | rfl | rfl <;> norm_num

example : (3 : ℕ) ≠ 0 ∧ (2 : ℕ) ≤ 3 := by omega

/-- `C16_aggregate_envelope`: three points, three rectangles -/
example : ([0, 1 / 2, 1] : List ℚ).length = ([(1 / 2, 1), (1 / 4, 1 / 2), (0, 1 / 4)] : List Iv).length ∧
    ([(0, 1 / 2), (1 / 4, 3 / 4), (1 / 2, 1)] : List Iv).length =
      ([(1 / 2, 1), (1 / 4, 1 / 2), (0, 1 / 4)] : List Iv).length ∧
    1 < ([(1 / 2, 1), (1 / 4, 1 / 2), (0, 1 / 4)] : List Iv).length := ⟨rfl, rfl, by decide⟩

/-- the support computation of `roc_with_ci` returns on the example (hypothesis of `C16_support_*`,
`C16_monotone`) -/
example : ∃ ts, findSupportThresholdsCI Ulp.half c16Example (some [0, 1 / 2]) none (some [5]) (some 7)
    rocCIExtraPoints "tar" = .ok ts := by
  have := C16_total Ulp.half c16Example c16Example_pos c16Example_neg (some [0, 1 / 2]) none (some [5])
    (some 7) rocCIExtraPoints "tar" (by simp [C15.expectedLength, C15.optLen])
  simpa [XAxis.ofString] using this

example : c16Example.pos.Pairwise (· ≤ ·) := by
  simpa [c16Example, Scores.make] using sortQ_pairwise [3, 1, 2, 2]

/-- `C16_closed_form` / `C16_length` / `C16_roc_wellformed`: a bootstrap that returns defined,
ordered intervals within `[0, 1]`, one per point (here: the identity sampler's) -/
example (f g : List (Option ℚ)) :
    identityBoot ([0, 1 / 2].map some) ([1, 1 / 2].map some) f g =
      (([(0, 0), (1 / 2, 1 / 2)] : List Iv).map Iv.lift, ([(1, 1), (1 / 2, 1 / 2)] : List Iv).map Iv.lift) ∧
    (∀ r ∈ ([(0, 0), (1 / 2, 1 / 2)] : List Iv), r.1 ≤ r.2 ∧ (0 ≤ r.1 ∧ r.1 ≤ 1) ∧ (0 ≤ r.2 ∧ r.2 ≤ 1)) ∧
    ((0 : ℚ) ≤ 1 / 2 ∧ (1 / 2 : ℚ) ≤ 1) := by
  refine ⟨rfl, ?_, by norm_num⟩
  intro r hr
  simp only [List.mem_cons, List.not_mem_nil, or_false] at hr
  rcases hr with rfl | rfl <;> norm_num

/-- `C16_identity_interval`: three replicates -/
example : (3 : ℕ) ≠ 0 := by decide

/-- the two experimental functions return on the example (hypotheses of `C16_sjr_ordered`,
`C16_pointwise_band`) -/
theorem sjr_total (u : Ulp) (s : Scores) (hp : s.pos.length ≠ 0) (hn : s.neg.length ≠ 0)
    (fnr fpr thr : Option (List ℚ)) (nb : Option ℕ) (dPos dNeg : ℚ) :
    ∃ c, simultaneousJointRegionCI u s fnr fpr thr nb dPos dNeg = .ok c := by
  have := C15_total u s hp hn fnr fpr thr nb "fnr"
  simp only [XAxis.ofString] at this
  obtain ⟨ts, hts⟩ := this
  unfold simultaneousJointRegionCI
  simp only [hts]
  exact ⟨_, rfl⟩

theorem pointwise_total (u : Ulp) (s : Scores) (hp : s.pos.length ≠ 0) (hn : s.neg.length ≠ 0)
    (fnr fpr thr : Option (List ℚ)) (nb : Option ℕ) (powPos powNeg : ℚ) (boot : BootCI) :
    ∃ c, pointwiseBandCI u s fnr fpr thr nb powPos powNeg boot = .ok c := by
  have := C15_total u s hp hn fnr fpr thr nb "fnr"
  simp only [XAxis.ofString] at this
  obtain ⟨ts, hts⟩ := this
  unfold pointwiseBandCI applyRuleOfThreeO
  simp only [hts, hp, hn, or_self, if_false]
  exact ⟨_, rfl⟩

example : ∃ c, simultaneousJointRegionCI Ulp.half c16Example none (some [1 / 2]) none (some 5)
    (1 / 4) (1 / 3) = .ok c := sjr_total _ _ c16Example_pos c16Example_neg _ _ _ _ _ _

example : ∃ c, pointwiseBandCI Ulp.half c16Example none none none none (1 / 2) (1 / 3)
    (identityBoot [] []) = .ok c := pointwise_total _ _ c16Example_pos c16Example_neg _ _ _ _ _ _ _

/-- a concrete band: three points on `[0, 1]`; the middle point is covered by all three
rectangles, the end points only by their own -/
example : aggregateRectangles [0, 1 / 2, 1] [(0, 1 / 4), (1 / 4, 3 / 4), (3 / 4, 1)]
    [(1 / 2, 1), (1 / 4, 1 / 2), (0, 1 / 4)] = [(1 / 2, 1), (1 / 4, 1 / 2), (0, 1 / 4)] := by
  decide +kernel

example : aggregateRectangles [0, 1 / 2, 1] [(0, 1 / 2), (1 / 4, 3 / 4), (1 / 2, 1)]
    [(1 / 2, 1), (1 / 4, 1 / 2), (0, 1 / 4)] = [(1 / 2, 1), (0, 1), (0, 1 / 4)] := by
  decide +kernel

/-- the rule of three at `n = 4`, `powA = 1/2`: rates `0, 1/4, 3/4, 1` -/
example : ruleOfThreeRows (1 / 2) 4 [0, 1 / 4, 3 / 4, 1] [(1 / 8, 1 / 4), (1 / 8, 1 / 2), (1 / 2, 7 / 8), (3 / 4, 7 / 8)] =
    [(0, 1 / 2), (1 / 8, 1 / 2), (1 / 2, 7 / 8), (1 / 2, 1)] := by
  decide +kernel

end SA
