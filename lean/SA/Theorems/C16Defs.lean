/-
C16 — `roc_curve._apply_rule_of_three` regenerated from the source (`SA/Model/DsDefs.lean`, `harness/dsdefs.py`).

* `rule3_eq_model`: the model's row (two nested `ite`, the width `1 - pow(alpha, 1/n)` with an UNINTERPRETED `pow`) is
  `SA.ruleOfThreeRow` for every alpha, n, rate, interval and every interpretation of `pow`: the tests are on the RATE array
  (`p < 1/n` -> `(0, 1 - alpha^(1/n))`, `p > (n-1)/n` -> `(alpha^(1/n), 1)`, the second wins where both hold).
* `rule3_bridge`: a translated row the checker accepts computes `SA.ruleOfThreeRow`, so `C16_rule_of_three*` apply to the
  translated code.  Soundness of `ok` / `mismatch`: `SA.DsDefs.checkRow_ok_sound` / `checkRow_mismatch_sound`.
-/
import SA.Theorems.C20Defs

namespace SA.DsDefs
open SA SA.MetricExpr

theorem rule3_eq_model (F1 : ℕ → ℚ → ℚ) (F2 : ℕ → ℚ → ℚ → ℚ) (alpha : ℚ) (n : ℕ) (p : ℚ) (c : Iv) :
    modelRule3.exprs.map (fun e => e.eval [alpha, (n : ℚ), p, c.1, c.2] F1 F2) =
      [(ruleOfThreeRow (F2 0 alpha (1 / (n : ℚ))) n p c).1, (ruleOfThreeRow (F2 0 alpha (1 / (n : ℚ))) n p c).2] := by
  by_cases h1 : p < ((n : ℚ))⁻¹ <;> by_cases h2 : p > ((n : ℚ) - 1) / (n : ℚ) <;>
    simp [modelRule3, mPow, mLowT, mUpT, c1, DExpr.eval, cmpOp, ruleOfThreeRow, h1, h2]

theorem rule3_bridge (got : Row) (h : checkRow modelRule3 got rule3Probes = .ok) (F1 : ℕ → ℚ → ℚ) (F2 : ℕ → ℚ → ℚ → ℚ)
    (alpha : ℚ) (n : ℕ) (p : ℚ) (c : Iv) :
    got.exprs.map (fun e => e.eval [alpha, (n : ℚ), p, c.1, c.2] F1 F2) =
      [(ruleOfThreeRow (F2 0 alpha (1 / (n : ℚ))) n p c).1, (ruleOfThreeRow (F2 0 alpha (1 / (n : ℚ))) n p c).2] := by
  obtain ⟨_, _, he⟩ := checkRow_ok_sound _ _ _ h
  rw [he, rule3_eq_model]

example : checkRow modelRule3 modelRule3 rule3Probes = .ok := by decide +kernel
/-- the tests as exact equalities `p == 0` / `p == 1`: differs from the model at a rate strictly between 0 and 1/n -/
example : checkRow modelRule3
    ⟨[.ite 4 (.var 2) c1 mPow (.ite 4 (.var 2) (.const 0 1) (.const 0 1) (.var 3)),
      .ite 4 (.var 2) c1 c1 (.ite 4 (.var 2) (.const 0 1) (.sub c1 mPow) (.var 4))], []⟩ rule3Probes = .mismatch 7 := by decide +kernel
/-- the first `np.where` wins (wrong priority): differs at n = 1, p = 1/2 where both tests hold -/
example : checkRow modelRule3
    ⟨[.ite 0 (.var 2) mLowT (.const 0 1) (.ite 2 (.var 2) mUpT mPow (.var 3)),
      .ite 0 (.var 2) mLowT (.sub c1 mPow) (.ite 2 (.var 2) mUpT c1 (.var 4))], []⟩ rule3Probes = .mismatch 11 := by decide +kernel
/-- counts instead of rates (`p*n < 1`, seeded C16_1: differs only in floating point) is `undecided` -/
example : checkRow modelRule3
    ⟨[.ite 2 (.mul (.var 2) (.var 1)) (.sub (.var 1) c1) mPow (.ite 0 (.mul (.var 2) (.var 1)) c1 (.const 0 1) (.var 3)),
      .ite 2 (.mul (.var 2) (.var 1)) (.sub (.var 1) c1) c1 (.ite 0 (.mul (.var 2) (.var 1)) c1 (.sub c1 mPow) (.var 4))], []⟩
    rule3Probes = .undecided := by decide +kernel

end SA.DsDefs
