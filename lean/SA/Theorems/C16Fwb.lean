/-
C16, `fixed_width_band_ci` — the band of the model (SA/Model/FixedWidth.lean) is well formed for
ALL inputs: shape `(n, 2)`, NaN-free on NaN-free rates, ordered `lower ≤ upper`; further structural
facts (inside `[0, nextafter(1, inf)]`, monotone in the radius, zero width at radius 0, the tube
radius is `0` or a bisection midpoint in `(0, 1)`, containment is monotone in the radius, the
bisection makes exactly 7 iterations).  `C16_fwb_not_contains_curve` is a kernel-checked
counterexample to "the band contains the curve".

Hypotheses that come from outside this file:
* the curve is monotone, FNR non-decreasing and FPR non-increasing along the thresholds: proved for
  every curve of a `Scores` object in `C16_fwb_curve_monotone` (from `C15_monotone`), composed with the
  band theorems in `C16_fwb_scores_wellformed`;
* `1 ≤ top` for `top = np.nextafter(1.0, np.inf)` and `0 ≤ k` for `k = np.sqrt(len(neg)/len(pos))`
  (oracles);
* the tube radii are `≥ 0`: proved for the model's `_find_tube_radius` in `C16_fwb_radius_grid`.
-/
import SA.Theorems.C16
import SA.Proofs.FixedWidth
import SA.Spec.C16Fwb

namespace SA
open Spec

/-! ### `_displace_curve` -/

/-- **`_displace_curve` returns exactly for two non-empty arrays** (`IndexError` otherwise). -/
theorem C16_fwb_displace_total (top : ℚ) (x y : List ℚ) (v0 v1 : ℚ) :
    (x.length ≠ 0 ∧ y.length ≠ 0 → ∃ r, c16f_displaceCurve top x y v0 v1 = .ok r) ∧
    (x.length = 0 ∨ y.length = 0 → c16f_displaceCurve top x y v0 v1 = .error .other) := by
  constructor
  · intro h
    obtain ⟨x', y', e⟩ := c16f_displace_ok top x y v0 v1 h.1 h.2
    exact ⟨_, e⟩
  · intro h
    unfold c16f_displaceCurve
    simp only [List.length_map]
    rw [if_pos h]

/-- **the displaced curve, entry by entry**: same lengths; the last point is `(top, 0)`, the first
(if it is not also the last) `(0, top)`, every other point the clipped translate. -/
theorem C16_fwb_displace_entries (top : ℚ) (x y : List ℚ) (v0 v1 : ℚ) (x' y' : List ℚ)
    (h : c16f_displaceCurve top x y v0 v1 = .ok (x', y')) :
    x'.length = x.length ∧ y'.length = y.length ∧ x.length ≠ 0 ∧ y.length ≠ 0 ∧
    (∀ i (_ : i < x'.length) (_ : i < x.length),
      x'[i] = if x.length - 1 = i then top else if 0 = i then 0 else c16f_clip01 (x[i] + v0)) ∧
    (∀ i (_ : i < y'.length) (_ : i < y.length),
      y'[i] = if y.length - 1 = i then 0 else if 0 = i then top else c16f_clip01 (y[i] + v1)) :=
  c16f_displace_spec top x y v0 v1 x' y' h

/-- **a displaced monotone curve is a valid interpolation table in both directions**: abscissae
non-decreasing, ordinates non-increasing, everything inside `[0, top]`. -/
theorem C16_fwb_displace_sorted (top : ℚ) (x y : List ℚ) (v0 v1 : ℚ) (x' y' : List ℚ)
    (h : c16f_displaceCurve top x y v0 v1 = .ok (x', y'))
    (hx : x.Pairwise (· ≤ ·)) (hy : y.Pairwise (· ≥ ·)) (ht : 1 ≤ top) :
    x'.Pairwise (· ≤ ·) ∧ y'.Pairwise (· ≥ ·) ∧
    (∀ a ∈ x', 0 ≤ a ∧ a ≤ top) ∧ (∀ b ∈ y', 0 ≤ b ∧ b ≤ top) :=
  ⟨c16f_displace_sortedX top x y v0 v1 x' y' h hx ht, c16f_displace_sortedY top x y v0 v1 x' y' h hy ht,
   (c16f_displace_range top x y v0 v1 x' y' h ht).1, (c16f_displace_range top x y v0 v1 x' y' h ht).2⟩

/-! ### the band -/

/-- **total exactly on curves with `len(fnr) = len(fpr) ≥ 1`.** -/
theorem C16_fwb_total (top : ℚ) (f g : List ℚ) (k delta : ℚ) :
    (∃ b, c16f_bandFromDelta top f g k delta = .ok b) ↔ (f.length = g.length ∧ f.length ≠ 0) := by
  constructor
  · rintro ⟨b, h⟩
    exact c16f_band_inv top f g k delta b h
  · rintro ⟨hl, hn⟩
    obtain ⟨_, _, _, _, _, _, e⟩ := c16f_band_eq top f g k delta hl hn
    exact ⟨_, e⟩

/-- **C16 (shape), fixed-width band.** Whenever the band function returns, both bands have one
`(lower, upper)` row per point of the curve. -/
theorem C16_fwb_shape (top : ℚ) (f g : List ℚ) (k delta : ℚ) (b : List Iv × List Iv)
    (h : c16f_bandFromDelta top f g k delta = .ok b) :
    b.1.length = f.length ∧ b.2.length = f.length ∧ f.length = g.length := by
  obtain ⟨hl, hn⟩ := c16f_band_inv top f g k delta b h
  obtain ⟨_, _, _, _, _, _, e⟩ := c16f_band_eq top f g k delta hl hn
  rw [e] at h
  injection h with h
  subst h
  simp [hl]

/-- **C16 (ordered), fixed-width band.** For a monotone curve (FNR non-decreasing, FPR
non-increasing), `1 ≤ top`, slope `k ≥ 0` and radius `delta ≥ 0`, every row of both bands has
`lower ≤ upper`. -/
theorem C16_fwb_ordered (top : ℚ) (f g : List ℚ) (k delta : ℚ) (b : List Iv × List Iv)
    (hf : f.Pairwise (· ≤ ·)) (hg : g.Pairwise (· ≥ ·)) (ht : 1 ≤ top) (hk : 0 ≤ k)
    (hd : 0 ≤ delta) (h : c16f_bandFromDelta top f g k delta = .ok b) :
    (∀ r ∈ b.1, r.1 ≤ r.2) ∧ (∀ r ∈ b.2, r.1 ≤ r.2) := by
  obtain ⟨hl, hn⟩ := c16f_band_inv top f g k delta b h
  obtain ⟨fP, gP, fM, gM, hP, hM, e⟩ := c16f_band_eq top f g k delta hl hn
  rw [e] at h
  injection h with h
  subst h
  have hdk : 0 ≤ delta * k := mul_nonneg hd hk
  have key := c16f_displaced_interp_mono top f g (-delta) (-(delta * k)) delta (delta * k) fM gM fP gP
    hM hP (by linarith) (by linarith) hf hg ht
  constructor
  · intro r hr
    obtain ⟨q, _, rfl⟩ := List.mem_map.mp hr
    exact (key q).2
  · intro r hr
    obtain ⟨q, _, rfl⟩ := List.mem_map.mp hr
    exact (key q).1

/-- **inside `[0, top]`.** Every entry of both bands lies between `0` and
`top = nextafter(1, inf)` (not `1`: the displaced curves start at ordinate `top`). -/
theorem C16_fwb_range (top : ℚ) (f g : List ℚ) (k delta : ℚ) (b : List Iv × List Iv)
    (hf : f.Pairwise (· ≤ ·)) (hg : g.Pairwise (· ≥ ·)) (ht : 1 ≤ top)
    (h : c16f_bandFromDelta top f g k delta = .ok b) :
    ∀ r, r ∈ b.1 ∨ r ∈ b.2 → (0 ≤ r.1 ∧ r.1 ≤ top) ∧ (0 ≤ r.2 ∧ r.2 ≤ top) := by
  obtain ⟨hl, hn⟩ := c16f_band_inv top f g k delta b h
  obtain ⟨fP, gP, fM, gM, hP, hM, e⟩ := c16f_band_eq top f g k delta hl hn
  rw [e] at h
  injection h with h
  subst h
  obtain ⟨sfP, sgP, rfP, rgP⟩ := C16_fwb_displace_sorted top f g _ _ fP gP hP hf hg ht
  obtain ⟨sfM, sgM, rfM, rgM⟩ := C16_fwb_displace_sorted top f g _ _ fM gM hM hf hg ht
  obtain ⟨lfP, lgP, _, _, _, _⟩ := c16f_displace_spec top f g _ _ fP gP hP
  obtain ⟨lfM, lgM, _, _, _, _⟩ := c16f_displace_spec top f g _ _ fM gM hM
  -- the two readings of a displaced curve as tables
  have fwd : ∀ (X Y : List ℚ), X.length = f.length → Y.length = f.length → X.Pairwise (· ≤ ·) →
      Y.Pairwise (· ≥ ·) → (∀ c ∈ Y, 0 ≤ c ∧ c ≤ top) → ∀ q,
      0 ≤ c16f_interp1 q (X.zip Y) ∧ c16f_interp1 q (X.zip Y) ≤ top := by
    intro X Y hX hY sX sY rY q
    refine c16f_interp1_bounds q 0 top (X.zip Y) ?_ (c16f_zip_pairwise X Y sX sY) ?_
    · intro hc
      have := congrArg List.length hc
      rw [List.length_zip, List.length_nil] at this
      omega
    · intro p hp
      exact rY p.2 (List.of_mem_zip (a := p.1) (b := p.2) hp).2
  have hgl : g.length = f.length := hl.symm
  intro r hr
  rcases hr with hr | hr
  · obtain ⟨q, _, rfl⟩ := List.mem_map.mp hr
    exact ⟨fwd gM.reverse fM.reverse (by rw [List.length_reverse]; omega)
        (by rw [List.length_reverse]; omega) (List.pairwise_reverse.mpr sgM)
        (List.pairwise_reverse.mpr sfM) (fun c hc => rfM c (List.mem_reverse.mp hc)) q,
      fwd gP.reverse fP.reverse (by rw [List.length_reverse]; omega)
        (by rw [List.length_reverse]; omega) (List.pairwise_reverse.mpr sgP)
        (List.pairwise_reverse.mpr sfP) (fun c hc => rfP c (List.mem_reverse.mp hc)) q⟩
  · obtain ⟨q, _, rfl⟩ := List.mem_map.mp hr
    exact ⟨fwd fM gM (by omega) (by omega) sfM sgM rgM q, fwd fP gP (by omega) (by omega) sfP sgP rgP q⟩

/-- **monotone in the radius.** For `delta₁ ≤ delta₂` (any signs) and `k ≥ 0` the band of `delta₂`
contains the band of `delta₁`: row by row, its lower limits are smaller and its upper limits
larger. -/
theorem C16_fwb_monotone_delta (top : ℚ) (f g : List ℚ) (k d1 d2 : ℚ) (b1 b2 : List Iv × List Iv)
    (hf : f.Pairwise (· ≤ ·)) (hg : g.Pairwise (· ≥ ·)) (ht : 1 ≤ top) (hk : 0 ≤ k) (hd : d1 ≤ d2)
    (h1 : c16f_bandFromDelta top f g k d1 = .ok b1) (h2 : c16f_bandFromDelta top f g k d2 = .ok b2) :
    List.Forall₂ (fun r1 r2 : Iv => r2.1 ≤ r1.1 ∧ r1.2 ≤ r2.2) b1.1 b2.1 ∧
    List.Forall₂ (fun r1 r2 : Iv => r2.1 ≤ r1.1 ∧ r1.2 ≤ r2.2) b1.2 b2.2 := by
  obtain ⟨hl, hn⟩ := c16f_band_inv top f g k d1 b1 h1
  obtain ⟨fP1, gP1, fM1, gM1, hP1, hM1, e1⟩ := c16f_band_eq top f g k d1 hl hn
  obtain ⟨fP2, gP2, fM2, gM2, hP2, hM2, e2⟩ := c16f_band_eq top f g k d2 hl hn
  rw [e1] at h1
  injection h1 with h1
  subst h1
  rw [e2] at h2
  injection h2 with h2
  subst h2
  have hdk : d1 * k ≤ d2 * k := mul_le_mul_of_nonneg_right hd hk
  have keyP := c16f_displaced_interp_mono top f g d1 (d1 * k) d2 (d2 * k) fP1 gP1 fP2 gP2 hP1 hP2 hd hdk
    hf hg ht
  have keyM := c16f_displaced_interp_mono top f g (-d2) (-(d2 * k)) (-d1) (-(d1 * k)) fM2 gM2 fM1 gM1
    hM2 hM1 (by linarith) (by linarith) hf hg ht
  constructor
  · simp only [List.forall₂_map_left_iff, List.forall₂_map_right_iff, List.forall₂_same]
    intro q _
    exact ⟨(keyM q).2, (keyP q).2⟩
  · simp only [List.forall₂_map_left_iff, List.forall₂_map_right_iff, List.forall₂_same]
    intro q _
    exact ⟨(keyM q).1, (keyP q).1⟩

/-- **zero width at radius 0.** With `delta = 0` both displaced curves coincide, so every row has
`lower = upper` (this is what the identity sampler produces). -/
theorem C16_fwb_zero_width (top : ℚ) (f g : List ℚ) (k : ℚ) (b : List Iv × List Iv)
    (h : c16f_bandFromDelta top f g k 0 = .ok b) : ∀ r, r ∈ b.1 ∨ r ∈ b.2 → r.1 = r.2 := by
  obtain ⟨hl, hn⟩ := c16f_band_inv top f g k 0 b h
  obtain ⟨fP, gP, fM, gM, hP, hM, e⟩ := c16f_band_eq top f g k 0 hl hn
  rw [e] at h
  injection h with h
  subst h
  have hv : (-(0 : ℚ)) = 0 ∧ (-((0 : ℚ) * k)) = 0 * k := by constructor <;> ring
  rw [hv.1, hv.2, hP] at hM
  injection hM with hM
  injection hM with hf' hg'
  subst hf'; subst hg'
  intro r hr
  rcases hr with hr | hr <;> · obtain ⟨q, _, rfl⟩ := List.mem_map.mp hr; rfl

/-! ### the tube radius -/

/-- **the bisection makes exactly 7 iterations**: the bound `7` on the number of loop iterations
in the model never cuts the `while delta_max - delta_min > tol` loop short. -/
theorem C16_fwb_bisect_fuel (c : ℚ → Except Err Bool) (extra : ℕ) :
    c16f_bisectLoop c (7 + extra) 0 1 = c16f_bisectLoop c 7 0 1 :=
  c16f_bisect_fuel_aux c 7 extra 0 1 (by norm_num)

/-- **the tube radius is `0` or a bisection midpoint**: `_find_tube_radius` returns `0` or an odd
multiple `(2 m + 1) / 256` of `1/256` with `m < 128`; in particular `0 ≤ r < 1`, and the spec
predicate `radiusGridOK` holds. -/
theorem C16_fwb_radius_grid (top : ℚ) (x y xs ys : List ℚ) (k r : ℚ)
    (h : c16f_findTubeRadius top x y xs ys k = .ok r) :
    (r = 0 ∨ ∃ m : ℕ, m < 128 ∧ r = (2 * (m : ℚ) + 1) / 256) ∧ (0 ≤ r ∧ r < 1) ∧
    C16Fwb.radiusGridOK (some r) = true := by
  have hgrid : r = 0 ∨ ∃ m : ℕ, m < 128 ∧ r = (2 * (m : ℚ) + 1) / 256 := by
    unfold c16f_findTubeRadius at h
    split at h
    · cases h
    · injection h with h; exact Or.inl h.symm
    · split at h
      · cases h
      · cases h
      · right
        have := c16f_bisect_grid_aux (c16f_isContained top x y xs ys k) 7 0 0 r (by norm_num)
          (by norm_num)
        simp only [Nat.cast_zero, pow_zero, zero_add, div_one] at this
        exact this h
  refine ⟨hgrid, ?_, ?_⟩
  · rcases hgrid with rfl | ⟨m, hm, rfl⟩
    · norm_num
    · have : (m : ℚ) ≤ 127 := by exact_mod_cast Nat.lt_succ_iff.mp hm
      have h0 : (0 : ℚ) ≤ m := Nat.cast_nonneg m
      constructor
      · positivity
      · rw [div_lt_one (by norm_num)]; linarith
  · rcases hgrid with rfl | ⟨m, hm, rfl⟩
    · simp [C16Fwb.radiusGridOK]
    · have hm' : (m : ℚ) ≤ 127 := by exact_mod_cast Nat.lt_succ_iff.mp hm
      have h0 : (0 : ℚ) ≤ m := Nat.cast_nonneg m
      have e : (2 * (m : ℚ) + 1) / 256 * 256 = ((2 * m + 1 : ℕ) : ℚ) := by push_cast; ring
      have hpos : (0 : ℚ) < (2 * (m : ℚ) + 1) / 256 := by positivity
      have hlt : (2 * (m : ℚ) + 1) / 256 < 1 := by rw [div_lt_one (by norm_num)]; linarith
      simp only [C16Fwb.radiusGridOK, e, Rat.den_natCast, Rat.num_natCast, hpos, hlt, decide_true,
        Bool.and_true, Bool.true_and, Bool.or_eq_true, decide_eq_true_eq]
      right
      omega

/-- **what the returned radius means.** Either `r = 0` and the undisplaced curve contains the
sample curve; or radius `0` does not, radius `4` does, and `r` is the midpoint of a bracket
`(lo, hi) ⊆ (0, 1)` whose lower end is `0` or was found NOT to contain the sample curve and whose
upper end is `1` or was found to contain it. -/
theorem C16_fwb_radius_bracket (top : ℚ) (x y xs ys : List ℚ) (k r : ℚ)
    (h : c16f_findTubeRadius top x y xs ys k = .ok r) :
    (r = 0 ∧ c16f_isContained top x y xs ys k 0 = .ok true) ∨
    (c16f_isContained top x y xs ys k 0 = .ok false ∧ c16f_isContained top x y xs ys k 4 = .ok true ∧
     ∃ lo hi, 0 ≤ lo ∧ lo < hi ∧ hi ≤ 1 ∧ r = (hi + lo) / 2 ∧
       (lo = 0 ∨ c16f_isContained top x y xs ys k lo = .ok false) ∧
       (hi = 1 ∨ c16f_isContained top x y xs ys k hi = .ok true)) := by
  unfold c16f_findTubeRadius at h
  split at h
  · cases h
  · rename_i h0
    injection h with h
    exact Or.inl ⟨h.symm, h0⟩
  · rename_i h0
    split at h
    · cases h
    · cases h
    · rename_i h4
      right
      obtain ⟨lo, hi, a1, a2, a3, a4, a5, a6⟩ :=
        c16f_bisect_bracket (c16f_isContained top x y xs ys k) 7 0 1 r h (by norm_num)
      exact ⟨h0, h4, lo, hi, a1, a2, a3, a4, a5, a6⟩

/-- **containment is monotone in the radius** (monotone curve, `1 ≤ top`, `k ≥ 0`): the bisection
searches a monotone predicate, so every radius above a contained one is contained. -/
theorem C16_fwb_contained_monotone (top : ℚ) (x y xs ys : List ℚ) (k d d' : ℚ)
    (hx : x.Pairwise (· ≤ ·)) (hy : y.Pairwise (· ≥ ·)) (ht : 1 ≤ top) (hk : 0 ≤ k) (hd : d ≤ d')
    (h : c16f_isContained top x y xs ys k d = .ok true) :
    c16f_isContained top x y xs ys k d' = .ok true :=
  c16f_contained_mono top x y xs ys k d d' hx hy ht hk hd h

/-- **`delta` is defined and `0 ≤ delta < 1`** for at least one radius, all radii in `[0, 1)`
(which `C16_fwb_radius_grid` proves of the model's radii), at EVERY level `alpha`. -/
theorem C16_fwb_delta (radii : List ℚ) (alpha : ℚ) (hne : radii ≠ [])
    (hr : ∀ r ∈ radii, 0 ≤ r ∧ r < 1) :
    ∃ d, c16f_deltaOf radii alpha = some d ∧ 0 ≤ d ∧ d < 1 := by
  obtain ⟨d, hd⟩ := c16f_delta_some radii alpha hne
  refine ⟨d, hd, ?_⟩
  -- the largest radius is below 1
  have hmax : ∃ hi, hi < 1 ∧ ∀ r ∈ radii, 0 ≤ r ∧ r ≤ hi := by
    clear hd hne
    induction radii with
    | nil => exact ⟨0, by norm_num, fun r hr => by cases hr⟩
    | cons a l ih =>
      obtain ⟨hi, h1, h2⟩ := ih (fun r hr' => hr r (List.mem_cons_of_mem _ hr'))
      have ha := hr a List.mem_cons_self
      refine ⟨max a hi, max_lt ha.2 h1, ?_⟩
      intro r hr'
      rcases List.mem_cons.mp hr' with rfl | hr'
      · exact ⟨ha.1, le_max_left _ _⟩
      · exact ⟨(h2 r hr').1, le_trans (h2 r hr').2 (le_max_right _ _)⟩
  obtain ⟨hi, h1, h2⟩ := hmax
  have := c16f_delta_bounds radii alpha 0 hi d h2 hd
  exact ⟨this.1, lt_of_le_of_lt this.2 h1⟩

/-! ### `fixed_width_band_ci` after the bootstrap loop -/

theorem c16f_defined_map_some (l : List ℚ) : c16f_defined (l.map some) = some l := by
  induction l with
  | nil => rfl
  | cons a l ih => simp only [List.map_cons, c16f_defined, ih]

theorem c16f_lift_mem (l : List Iv) (r : OIv) (h : r ∈ l.map Iv.lift) :
    ∃ p ∈ l, r = (some p.1, some p.2) := by
  obtain ⟨p, hp, rfl⟩ := List.mem_map.mp h
  exact ⟨p, hp, rfl⟩

/-- **C16 (shape, NaN-free, ordered), fixed-width band.** NaN-free rates of a monotone curve with
`n ≥ 1` points, `1 ≤ top`, `k ≥ 0`, at least one tube radius, all radii in `[0, 1)`, ANY `alpha`:
`fixed_width_band_ci` returns, and its bands satisfy the three well-formedness clauses of C16 (the
executable predicates the harness evaluates on the implementation) and lie inside `[0, top]`. -/
theorem C16_fwb_wellformed (top : ℚ) (f g : List ℚ) (k : ℚ) (radii : List ℚ) (alpha : ℚ)
    (hl : f.length = g.length) (hn : f.length ≠ 0)
    (hf : f.Pairwise (· ≤ ·)) (hg : g.Pairwise (· ≥ ·)) (ht : 1 ≤ top) (hk : 0 ≤ k)
    (hne : radii ≠ []) (hr : ∀ r ∈ radii, 0 ≤ r ∧ r < 1) :
    ∃ bandF bandG, c16f_fixedWidthBandO top (f.map some) (g.map some) k radii alpha = .ok (bandF, bandG) ∧
      C16Fwb.wellFormedOK f.length bandF bandG = true ∧
      C16Fwb.rangeOK 0 top bandF = true ∧ C16Fwb.rangeOK 0 top bandG = true := by
  obtain ⟨d, hd, hd0, _⟩ := C16_fwb_delta radii alpha hne hr
  obtain ⟨b, hb⟩ := (C16_fwb_total top f g k d).mpr ⟨hl, hn⟩
  obtain ⟨s1, s2, _⟩ := C16_fwb_shape top f g k d b hb
  obtain ⟨o1, o2⟩ := C16_fwb_ordered top f g k d b hf hg ht hk hd0 hb
  have rg := C16_fwb_range top f g k d b hf hg ht hb
  refine ⟨b.1.map Iv.lift, b.2.map Iv.lift, ?_, ?_, ?_, ?_⟩
  · unfold c16f_fixedWidthBandO
    rw [c16f_defined_map_some, c16f_defined_map_some, hd]
    simp only [hb]
  · simp only [C16Fwb.wellFormedOK, C16.shapeOK, C16.nanFreeOK, C16.orderedOK, List.length_map, s1, s2,
      beq_self_eq_true, Bool.true_and, Bool.and_eq_true, List.all_eq_true]
    refine ⟨⟨⟨?_, ?_⟩, ?_⟩, ?_⟩
    · intro r hr'
      obtain ⟨p, _, rfl⟩ := c16f_lift_mem _ _ hr'
      exact ⟨rfl, rfl⟩
    · intro r hr'
      obtain ⟨p, _, rfl⟩ := c16f_lift_mem _ _ hr'
      exact ⟨rfl, rfl⟩
    · intro r hr'
      obtain ⟨p, hp, rfl⟩ := c16f_lift_mem _ _ hr'
      simp only [leN, decide_eq_true_eq]
      exact o1 p hp
    · intro r hr'
      obtain ⟨p, hp, rfl⟩ := c16f_lift_mem _ _ hr'
      simp only [leN, decide_eq_true_eq]
      exact o2 p hp
  · simp only [C16Fwb.rangeOK, List.all_eq_true]
    intro r hr'
    obtain ⟨p, hp, rfl⟩ := c16f_lift_mem _ _ hr'
    have := rg p (Or.inl hp)
    simp only [leN, Bool.and_eq_true, decide_eq_true_eq, neg_zero, add_zero]
    exact ⟨⟨⟨this.1.1, this.1.2⟩, this.2.1⟩, this.2.2⟩
  · simp only [C16Fwb.rangeOK, List.all_eq_true]
    intro r hr'
    obtain ⟨p, hp, rfl⟩ := c16f_lift_mem _ _ hr'
    have := rg p (Or.inr hp)
    simp only [leN, Bool.and_eq_true, decide_eq_true_eq, neg_zero, add_zero]
    exact ⟨⟨⟨this.1.1, this.1.2⟩, this.2.1⟩, this.2.2⟩

/-- **NaN-free rates and a radius are what the band needs** (`C16 (NaN-free)` as a statement about
`Option`): on defined rates with at least one radius the possibly-NaN wrapper is the rational model
with its rows lifted, so no entry is NaN. -/
theorem C16_fwb_defined (top : ℚ) (f g : List ℚ) (k : ℚ) (radii : List ℚ) (alpha d : ℚ)
    (hd : c16f_deltaOf radii alpha = some d) :
    c16f_fixedWidthBandO top (f.map some) (g.map some) k radii alpha =
      (match c16f_bandFromDelta top f g k d with
       | .error e => .error e
       | .ok b => .ok (b.1.map Iv.lift, b.2.map Iv.lift)) ∧
    c16f_fixedWidthBand top f g k radii alpha = some (c16f_bandFromDelta top f g k d) := by
  constructor
  · unfold c16f_fixedWidthBandO
    rw [c16f_defined_map_some, c16f_defined_map_some, hd]
    simp only []
    generalize c16f_bandFromDelta top f g k d = res
    cases res <;> rfl
  · unfold c16f_fixedWidthBand
    rw [hd]

/-! ### the spec predicates hold of the model (`eps = 0`) -/

theorem c16f_arrNear_self (l : List ℚ) : C16Fwb.arrNear 0 l (l.map some) = true := by
  simp only [C16Fwb.arrNear, List.length_map, beq_self_eq_true, Bool.true_and, List.all_eq_true]
  intro p hp
  rw [List.zip_map_right] at hp
  obtain ⟨q, hq, rfl⟩ := List.mem_map.mp hp
  have : q.1 = q.2 := by
    clear hp
    induction l with
    | nil => cases hq
    | cons a l ih =>
      rw [List.zip_cons_cons] at hq
      rcases List.mem_cons.mp hq with rfl | hq
      · rfl
      · exact ih hq
  show C15.nearO 0 (some q.1) (some q.2) = true
  rw [this]
  exact nearO_self_c15 _

/-- the model's displaced curve satisfies `displaceOK` -/
theorem C16_fwb_spec_displace (top : ℚ) (x y : List ℚ) (v0 v1 : ℚ) (x' y' : List ℚ)
    (h : c16f_displaceCurve top x y v0 v1 = .ok (x', y')) :
    C16Fwb.displaceOK 0 top x y v0 v1 (x'.map some) (y'.map some) = true := by
  simp only [C16Fwb.displaceOK, h, c16f_arrNear_self, Bool.and_self]

/-- the model's radius satisfies `radiusOK` -/
theorem C16_fwb_spec_radius (top : ℚ) (x y xs ys : List ℚ) (k r : ℚ)
    (h : c16f_findTubeRadius top x y xs ys k = .ok r) :
    C16Fwb.radiusOK 0 top x y xs ys k (some r) = true := by
  simp only [C16Fwb.radiusOK, h]
  exact nearO_self_c15 _

/-- the model's `delta` satisfies `deltaOK`, and `+-(delta, delta k)` satisfy `vectorsOK` -/
theorem C16_fwb_spec_delta (radii : List ℚ) (alpha k d : ℚ) (hd : 0 ≤ d) :
    C16Fwb.deltaOK 0 radii alpha (c16f_deltaOf radii alpha) = true ∧
    C16Fwb.vectorsOK 0 k d d (d * k) (-d) (-(d * k)) = true := by
  constructor
  · exact nearO_self_c15 _
  · simp [C16Fwb.vectorsOK, hd, absQ]

/-- the model's bands satisfy `closedFormOK`, and `bandRelOK` with the model's displaced curves -/
theorem C16_fwb_spec_band (top : ℚ) (f g : List ℚ) (k delta : ℚ) (b : List Iv × List Iv)
    (h : c16f_bandFromDelta top f g k delta = .ok b) :
    C16Fwb.closedFormOK 0 top f g k delta (b.1.map Iv.lift) (b.2.map Iv.lift) = true ∧
    ∃ fP gP fM gM, c16f_displaceCurve top f g delta (delta * k) = .ok (fP, gP) ∧
      c16f_displaceCurve top f g (-delta) (-(delta * k)) = .ok (fM, gM) ∧
      C16Fwb.bandRelOK 0 f g fP gP fM gM (b.1.map Iv.lift) (b.2.map Iv.lift) = true := by
  constructor
  · simp only [C16Fwb.closedFormOK, h, c16_bandNear_self, Bool.and_self]
  · obtain ⟨hl, hn⟩ := c16f_band_inv top f g k delta b h
    obtain ⟨fP, gP, fM, gM, hP, hM, e⟩ := c16f_band_eq top f g k delta hl hn
    refine ⟨fP, gP, fM, gM, hP, hM, ?_⟩
    obtain ⟨lfP, lgP, _, _, _, _⟩ := c16f_displace_spec top f g _ _ fP gP hP
    obtain ⟨lfM, lgM, _, _, _, _⟩ := c16f_displace_spec top f g _ _ fM gM hM
    rw [e] at h
    injection h with h
    subst h
    simp only [C16Fwb.bandRelOK]
    rw [c16f_interp_ok g gM.reverse fM.reverse (by rw [List.length_reverse]; omega)
        (by rw [List.length_reverse, List.length_reverse]; omega),
      c16f_interp_ok g gP.reverse fP.reverse (by rw [List.length_reverse]; omega)
        (by rw [List.length_reverse, List.length_reverse]; omega),
      c16f_interp_ok f fM gM (by omega) (by omega), c16f_interp_ok f fP gP (by omega) (by omega)]
    simp only [List.zip_map', c16_bandNear_self, Bool.and_self]

theorem c16f_nondecOK_of_pairwise : ∀ l : List ℚ, l.Pairwise (· ≤ ·) → C16Fwb.nondecOK l = true := by
  intro l
  induction l with
  | nil => intro _; rfl
  | cons a l ih =>
    intro h
    cases l with
    | nil => rfl
    | cons b l =>
      have h1 := List.pairwise_cons.mp h
      simp only [C16Fwb.nondecOK, Bool.and_eq_true, decide_eq_true_eq]
      exact ⟨h1.1 b List.mem_cons_self, ih h1.2⟩

/-- the model's displaced curve of a monotone curve with at least two points satisfies
`curveSortedOK`: a valid interpolation table from `(0, top)` to `(top, 0)` -/
theorem C16_fwb_spec_sorted (top : ℚ) (x y : List ℚ) (v0 v1 : ℚ) (x' y' : List ℚ)
    (h : c16f_displaceCurve top x y v0 v1 = .ok (x', y'))
    (hx : x.Pairwise (· ≤ ·)) (hy : y.Pairwise (· ≥ ·)) (ht : 1 ≤ top)
    (hnx : 2 ≤ x.length) (hny : 2 ≤ y.length) :
    C16Fwb.curveSortedOK top x' y' = true := by
  obtain ⟨sx, sy, _, _⟩ := C16_fwb_displace_sorted top x y v0 v1 x' y' h hx hy ht
  obtain ⟨lx, ly, _, _, eX, eY⟩ := c16f_displace_spec top x y v0 v1 x' y' h
  have hx0 : x'.head? = some 0 := by
    rw [List.head?_eq_getElem?, List.getElem?_eq_getElem (by omega), eX 0 (by omega) (by omega)]
    rw [if_neg (by omega), if_pos rfl]
  have hxl : x'.getLast? = some top := by
    rw [List.getLast?_eq_getElem?, List.getElem?_eq_getElem (by omega), eX _ (by omega) (by omega)]
    rw [if_pos (by omega)]
  have hy0 : y'.head? = some top := by
    rw [List.head?_eq_getElem?, List.getElem?_eq_getElem (by omega), eY 0 (by omega) (by omega)]
    rw [if_neg (by omega), if_pos rfl]
  have hyl : y'.getLast? = some 0 := by
    rw [List.getLast?_eq_getElem?, List.getElem?_eq_getElem (by omega), eY _ (by omega) (by omega)]
    rw [if_pos (by omega)]
  simp only [C16Fwb.curveSortedOK, hx0, hxl, hy0, hyl, beq_self_eq_true, Bool.and_true,
    Bool.and_eq_true]
  exact ⟨c16f_nondecOK_of_pairwise _ sx, c16f_nondecOK_of_pairwise _ (List.pairwise_reverse.mpr sy)⟩

/-! ### the curve of a `Scores` object -/

/-- the support of `x_axis = "tnr"` is the support of `x_axis = "fnr"` (neither axis is reversed) -/
theorem c16f_support_tnr (u : Ulp) (s : Scores) (fnr fpr thr : Option (List ℚ)) (nb : Option ℕ)
    (ts : List ℚ) (h : findSupportThresholds u s fnr fpr thr nb "fnr" = .ok ts) :
    findSupportThresholds u s fnr fpr thr nb "tnr" = .ok ts := by
  obtain ⟨l, x, hl, hx, rfl⟩ := findSupport_ok u s fnr fpr thr nb "fnr" ts h
  have hx' : x = .fnr := by
    simp only [XAxis.ofString] at hx
    injection hx with hx
    exact hx.symm
  subst hx'
  unfold findSupportThresholds
  rw [hl]
  rfl

/-- **the curve `fixed_width_band_ci` works on is monotone and NaN-free.** For an object with
sorted arrays (the `Scores` invariant) and both classes non-empty, along the thresholds of
`_find_support_thresholds(..., x_axis="fnr")` the FNR values are defined and non-decreasing and the
FPR values are defined and non-increasing: the hypotheses of `C16_fwb_ordered`, `_range`,
`_monotone_delta`, `_wellformed` hold for every curve the function builds. -/
theorem C16_fwb_curve_monotone (u : Ulp) (s : Scores) (hp : s.pos.Pairwise (· ≤ ·))
    (hn : s.neg.Pairwise (· ≤ ·)) (hp0 : s.pos.length ≠ 0) (hn0 : s.neg.length ≠ 0)
    (fnr fpr thr : Option (List ℚ)) (nb : Option ℕ) (ts : List ℚ)
    (h : findSupportThresholds u s fnr fpr thr nb "fnr" = .ok ts) :
    ∃ f g : List ℚ,
      ts.map (fun t => (s.cm (.fin t)).fnr) = f.map some ∧
      ts.map (fun t => (s.cm (.fin t)).fpr) = g.map some ∧
      f.length = ts.length ∧ g.length = ts.length ∧
      f.Pairwise (· ≤ ·) ∧ g.Pairwise (· ≥ ·) := by
  have hFN := C15_monotone u s hp hn fnr fpr thr nb "fnr" .fnr rfl ts h
  have hTN := C15_monotone u s hp hn fnr fpr thr nb "tnr" .tnr rfl ts
    (c16f_support_tnr u s fnr fpr thr nb ts h)
  have hP : ∀ t : ℚ, (s.cm (.fin t)).p = s.pos.length + s.easyPos := fun t =>
    (cm_totals_sorted s hp hn (.fin t)).1
  have hN : ∀ t : ℚ, (s.cm (.fin t)).n = s.neg.length + s.easyNeg := fun t =>
    (cm_totals_sorted s hp hn (.fin t)).2
  have hPq : (0 : ℚ) < ((s.pos.length + s.easyPos : ℕ) : ℚ) := by
    exact_mod_cast Nat.pos_of_ne_zero (by omega)
  have hNq : (0 : ℚ) < ((s.neg.length + s.easyNeg : ℕ) : ℚ) := by
    exact_mod_cast Nat.pos_of_ne_zero (by omega)
  refine ⟨ts.map fun t => ((s.cm (.fin t)).fn : ℚ) / ((s.pos.length + s.easyPos : ℕ) : ℚ),
    ts.map fun t => ((s.cm (.fin t)).fp : ℚ) / ((s.neg.length + s.easyNeg : ℕ) : ℚ), ?_, ?_, by simp,
    by simp, ?_, ?_⟩
  · rw [List.map_map]
    apply List.map_congr_left
    intro t _
    simp only [CM.fnr, ratio, hP t, Function.comp]
    rw [if_neg (by omega)]
  · rw [List.map_map]
    apply List.map_congr_left
    intro t _
    simp only [CM.fpr, ratio, hN t, Function.comp]
    rw [if_neg (by omega)]
  · rw [List.pairwise_map] at hFN ⊢
    refine hFN.imp ?_
    intro a b hab
    simp only [XAxis.metric, CM.rateNum] at hab
    exact div_le_div_of_nonneg_right (by exact_mod_cast hab) hPq.le
  · rw [List.pairwise_map] at hTN ⊢
    refine hTN.imp ?_
    intro a b hab
    simp only [XAxis.metric, CM.rateNum] at hab
    have ha := hN a
    have hb := hN b
    simp only [CM.n] at ha hb
    have : (s.cm (.fin b)).fp ≤ (s.cm (.fin a)).fp := by omega
    show ((s.cm (.fin b)).fp : ℚ) / _ ≤ ((s.cm (.fin a)).fp : ℚ) / _
    exact div_le_div_of_nonneg_right (by exact_mod_cast this) hNq.le

/-- **C16 (shape, NaN-free, ordered) for `fixed_width_band_ci` on a `Scores` object.** Sorted arrays
(the `Scores` invariant), both classes non-empty, ANY combination of supplied `fnr` / `fpr` /
`thresholds` / `nb_points` for which the support is non-empty, `1 ≤ top`, `k ≥ 0`, at least one tube
radius, all radii in `[0, 1)`, ANY `alpha`: on the curve of `_find_support_thresholds(...,
x_axis="fnr")` with its FNR / FPR values the band assembly returns, and the bands have one row per
threshold, are NaN-free, ordered and inside `[0, top]`. -/
theorem C16_fwb_scores_wellformed (u : Ulp) (s : Scores) (hp : s.pos.Pairwise (· ≤ ·))
    (hn : s.neg.Pairwise (· ≤ ·)) (hp0 : s.pos.length ≠ 0) (hn0 : s.neg.length ≠ 0)
    (fnr fpr thr : Option (List ℚ)) (nb : Option ℕ) (ts : List ℚ)
    (h : findSupportThresholds u s fnr fpr thr nb "fnr" = .ok ts) (hts : ts.length ≠ 0)
    (top k : ℚ) (radii : List ℚ) (alpha : ℚ) (ht : 1 ≤ top) (hk : 0 ≤ k)
    (hne : radii ≠ []) (hr : ∀ r ∈ radii, 0 ≤ r ∧ r < 1) :
    ∃ bandF bandG,
      c16f_fixedWidthBandO top (ts.map fun t => (s.cm (.fin t)).fnr) (ts.map fun t => (s.cm (.fin t)).fpr)
        k radii alpha = .ok (bandF, bandG) ∧
      C16Fwb.wellFormedOK ts.length bandF bandG = true ∧
      C16Fwb.rangeOK 0 top bandF = true ∧ C16Fwb.rangeOK 0 top bandG = true := by
  obtain ⟨f, g, ef, eg, lf, lg, mf, mg⟩ :=
    C16_fwb_curve_monotone u s hp hn hp0 hn0 fnr fpr thr nb ts h
  rw [ef, eg, ← lf]
  exact C16_fwb_wellformed top f g k radii alpha (by omega) (by omega) mf mg ht hk hne hr

/-! ### a clause that is FALSE: the band does not always contain the curve -/

/-- `top = np.nextafter(1.0, np.inf)` -/
def c16fTop : ℚ := 1 + 1 / 2 ^ 52

/-- **counterexample to "the band contains the curve".** A monotone curve with a vertical segment
(two points with the same FNR `1/2`, FPR `4/5` and `1/5`), radius `delta = 0` (every bootstrap
sample inside the curve, e.g. the identity sampler): the FPR band at the point `(1/2, 4/5)` is
`(1/5, 1/5)`, so its UPPER limit `1/5` lies below the curve's FPR `4/5`.  (`np.interp` resolves
a vertical segment to its last point.)  The band is still ordered, as `C16_fwb_ordered` says. -/
theorem C16_fwb_not_contains_curve :
    (match c16f_bandFromDelta c16fTop [0, 1 / 2, 1 / 2, 1] [1, 4 / 5, 1 / 5, 0] 1 0 with
     | .ok b => b.2.getD 1 (0, 0) == (1 / 5, 1 / 5) &&
                decide ((b.2.getD 1 (0, 0)).2 < ([1, 4 / 5, 1 / 5, 0] : List ℚ).getD 1 0)
     | .error _ => false) = true := by
  decide +kernel

/-- **the same on a run of the real function.** `Scores(pos=[1, 2, 3], neg=[0, 1.5, 2.5])` with all
six scores as thresholds (`nb_points=None`) has FNR `[0, 0, 1/3, 1/3, 2/3, 2/3]` and FPR
`[1, 2/3, 2/3, 1/3, 1/3, 0]`, `k = 1`.  Under the identity sampler every bootstrap curve is the curve
itself; its tube radius is `85/256` (not `0`: a step curve does not contain itself, `np.interp` resolves
each vertical segment to its last point), so `delta = 85/256`, and the FNR band at the last point
`(2/3, 0)` is `(top, top)`: its LOWER limit `nextafter(1, inf)` lies above the curve's FNR `2/3` (and above
`1`).  The implementation returns exactly this (replayed in the correspondence notes). -/
theorem C16_fwb_not_contains_curve_identity :
    c16f_findTubeRadius c16fTop [0, 0, 1 / 3, 1 / 3, 2 / 3, 2 / 3] [1, 2 / 3, 2 / 3, 1 / 3, 1 / 3, 0]
      [0, 0, 1 / 3, 1 / 3, 2 / 3, 2 / 3] [1, 2 / 3, 2 / 3, 1 / 3, 1 / 3, 0] 1 = .ok (85 / 256) ∧
    (match c16f_bandFromDelta c16fTop [0, 0, 1 / 3, 1 / 3, 2 / 3, 2 / 3] [1, 2 / 3, 2 / 3, 1 / 3, 1 / 3, 0] 1
        (85 / 256) with
     | .ok b => b.1.getD 5 (0, 0) == (c16fTop, c16fTop) &&
                decide (([0, 0, 1 / 3, 1 / 3, 2 / 3, 2 / 3] : List ℚ).getD 5 0 < (b.1.getD 5 (0, 0)).1) &&
                decide (1 < (b.1.getD 5 (0, 0)).1)
     | .error _ => false) = true := by
  constructor <;> decide +kernel

/-! ### the hypotheses are satisfiable -/

def c16fF : List ℚ := [0, 1 / 4, 1 / 2, 1]
def c16fG : List ℚ := [1, 1 / 2, 1 / 4, 0]

/-- a monotone curve with four points, `1 ≤ top`, `0 ≤ k`, `0 ≤ delta` (hypotheses of
`C16_fwb_ordered`, `_range`, `_monotone_delta`, `_wellformed`, `_contained_monotone`) -/
example : c16fF.length = c16fG.length ∧ c16fF.length ≠ 0 ∧ c16fF.Pairwise (· ≤ ·) ∧
    c16fG.Pairwise (· ≥ ·) ∧ 1 ≤ c16fTop ∧ (0 : ℚ) ≤ 3 / 2 ∧ (0 : ℚ) ≤ 1 / 8 ∧ (1 / 16 : ℚ) ≤ 1 / 8 := by
  refine ⟨rfl, by decide, ?_, ?_, ?_, by norm_num, by norm_num, by norm_num⟩
  · simp only [c16fF, List.pairwise_cons, List.mem_cons, List.not_mem_nil, or_false, forall_eq_or_imp,
      forall_eq, List.Pairwise.nil, and_true, IsEmpty.forall_iff, implies_true]
    norm_num
  · simp only [c16fG, List.pairwise_cons, List.mem_cons, List.not_mem_nil, or_false, forall_eq_or_imp,
      forall_eq, List.Pairwise.nil, and_true, IsEmpty.forall_iff, implies_true]
    norm_num
  · unfold c16fTop; norm_num

/-- the band function returns on it (hypothesis `... = .ok b` of `C16_fwb_shape`, `_ordered`,
`_range`, `_zero_width`, `_monotone_delta`, `_spec_band`) -/
example : (∃ b, c16f_bandFromDelta c16fTop c16fF c16fG (3 / 2) (1 / 8) = .ok b) ∧
    (∃ b, c16f_bandFromDelta c16fTop c16fF c16fG (3 / 2) (1 / 16) = .ok b) ∧
    (∃ b, c16f_bandFromDelta c16fTop c16fF c16fG (3 / 2) 0 = .ok b) :=
  ⟨(C16_fwb_total _ _ _ _ _).mpr ⟨rfl, by decide⟩, (C16_fwb_total _ _ _ _ _).mpr ⟨rfl, by decide⟩,
   (C16_fwb_total _ _ _ _ _).mpr ⟨rfl, by decide⟩⟩

/-- `_displace_curve` returns on it (hypothesis of `C16_fwb_displace_entries`, `_displace_sorted`,
`_spec_displace`) -/
example : ∃ r, c16f_displaceCurve c16fTop c16fF c16fG (1 / 8) (3 / 16) = .ok r :=
  (C16_fwb_displace_total _ _ _ _ _).1 ⟨by decide, by decide⟩

/-- at least two points (hypothesis of `C16_fwb_spec_sorted`) -/
example : 2 ≤ c16fF.length ∧ 2 ≤ c16fG.length := by decide

/-- `_find_tube_radius` returns a bisection midpoint on a sample curve that leaves the curve
(hypothesis of `C16_fwb_radius_grid`, `_radius_bracket`, `_spec_radius`), and `_is_contained`
holds at radius `1/4` (hypothesis of `C16_fwb_contained_monotone`) -/
example : c16f_findTubeRadius c16fTop c16fF c16fG [0, 1 / 4, 1 / 2, 1] [1, 3 / 4, 1 / 4, 0] (3 / 2) =
      .ok (63 / 256) ∧
    c16f_isContained c16fTop c16fF c16fG [0, 1 / 4, 1 / 2, 1] [1, 3 / 4, 1 / 4, 0] (3 / 2) (1 / 4) =
      .ok true := by
  constructor <;> decide +kernel

/-- radii in `[0, 1)`, at least one (hypotheses of `C16_fwb_delta`, `C16_fwb_wellformed`); a defined
`delta` (hypothesis of `C16_fwb_defined`) -/
example : ([0, 63 / 256, 1 / 256] : List ℚ) ≠ [] ∧ (∀ r ∈ ([0, 63 / 256, 1 / 256] : List ℚ), 0 ≤ r ∧ r < 1) ∧
    ∃ d, c16f_deltaOf [0, 63 / 256, 1 / 256] (1 / 20) = some d := by
  refine ⟨by simp, ?_, c16f_delta_some _ _ (by simp)⟩
  intro r hr
  simp only [List.mem_cons, List.not_mem_nil, or_false] at hr
  rcases hr with rfl | rfl | rfl <;> norm_num

/-- the hypotheses of `C16_fwb_curve_monotone` / `C16_fwb_scores_wellformed` on the example object of
C16: sorted, both classes non-empty, the support (all six scores) is returned and non-empty -/
example : c16Example.pos.Pairwise (· ≤ ·) ∧ c16Example.neg.Pairwise (· ≤ ·) ∧
    ∃ ts, findSupportThresholds Ulp.half c16Example none none none none "fnr" = .ok ts ∧
      ts.length ≠ 0 := by
  refine ⟨by simpa [c16Example, Scores.make] using sortQ_pairwise [3, 1, 2, 2],
    by simpa [c16Example, Scores.make] using sortQ_pairwise [2, 0], ?_⟩
  have := C15_total Ulp.half c16Example c16Example_pos c16Example_neg none none none none "fnr"
  simp only [XAxis.ofString] at this
  obtain ⟨ts, hts⟩ := this
  refine ⟨ts, hts, ?_⟩
  have hl := (C15_length Ulp.half c16Example none none none none "fnr" ts hts).2.2 rfl rfl
  rw [hl]
  exact fun hc => c16Example_pos (by omega)

end SA
