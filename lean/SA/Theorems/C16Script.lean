/-
C16 / C14 / C11 — `roc_with_ci` (and `pointwise_band_ci`) end to end on the scripted RNG.

`rocWithCIScript` (SA/Model/RocCIScript.lean) is `roc_with_ci` with the joint bootstrap interval
computed inside the model from a script of RNG answers: `_metric(self)`, then `nb_samples` times
`bootstrap_sample` + `_metric(sample)`, then `utils.bootstrap_ci` per component, the rule of three
and the rectangle aggregation.

* refinement (`C16_script_refines`, `C16_script_errors`): it IS `rocWithCI` with `boot` := the
  script-driven interval (`scriptBoot`), so every theorem of SA/Theorems/C16.lean applies, and the
  RNG state afterwards is the state after exactly `nb_samples` consecutive `bootstrap_sample` calls
  (`C16_script_state`, `C16_script_requests`);
* well-formed bands for EVERY script on which the run is `ok` (`C16_script_wellformed` and its
  quantile / BC corollaries): every built-in sampler that does not raise by design
  (`c11p_Runnable`), stratified or not, sources with a scored positive and a scored negative;
* identity script (`C16_script_identity`): the bands are those of `C16_identity_closed_form`.

Helper lemmas: SA/Proofs/RocCIScript.lean.
-/
import SA.Proofs.RocCIScript

namespace SA
open Spec

/-! ### the targets of `_metric` -/

theorem c16s_allSome_map_some (l : List ℚ) : allSome (l.map some) = some l := by
  induction l with
  | nil => rfl
  | cons x rest ih => simp only [List.map_cons, allSome, ih, Option.map_some]

/-- the FNR / FPR targets handed to `threshold_at_fnr` / `threshold_at_fpr` inside `_metric` -/
def scriptTargetsF (s : Scores) (p : BootParams) (ts : List ℚ) : List ℚ := (ts.map s.fnrQ).map p.rnd
def scriptTargetsG (s : Scores) (p : BootParams) (ts : List ℚ) : List ℚ := (ts.map s.fprQ).map p.rnd

theorem c16s_rates_some (s : Scores) (hp : s.pos.length ≠ 0) (hn : s.neg.length ≠ 0) (ts : List ℚ) :
    (ts.map fun t => (s.cm (.fin t)).fnr) = (ts.map s.fnrQ).map some ∧
    (ts.map fun t => (s.cm (.fin t)).fpr) = (ts.map s.fprQ).map some := by
  constructor
  · rw [List.map_map]
    exact List.map_congr_left fun t _ => (c16_rates_defined s t).1 hp
  · rw [List.map_map]
    exact List.map_congr_left fun t _ => (c16_rates_defined s t).2 hn

/-- with a scored positive and a scored negative no rate of the curve is NaN: the targets are
defined (the `Err.other` branch of `rocCIScriptFrom` is unreachable) -/
theorem c16s_targets_defined (s : Scores) (p : BootParams) (hp : s.pos.length ≠ 0)
    (hn : s.neg.length ≠ 0) (ts : List ℚ) :
    metricTargets p.rnd (ts.map fun t => (s.cm (.fin t)).fnr) = some (scriptTargetsF s p ts) ∧
    metricTargets p.rnd (ts.map fun t => (s.cm (.fin t)).fpr) = some (scriptTargetsG s p ts) := by
  obtain ⟨hf, hg⟩ := c16s_rates_some s hp hn ts
  rw [hf, hg]
  simp only [metricTargets, c16s_allSome_map_some, Option.map_some, scriptTargetsF, scriptTargetsG,
    and_self]

/-! ### refinement -/

/-- after the thresholds: the script model is `rocCIFrom` with the interval the script run
produces, and it raises what the script run raises -/
theorem c16s_from_eq (u : Ulp) (s : Scores) (p : BootParams) (ts : List ℚ) (powPos powNeg : ℚ)
    (st : RngState) (hp : s.pos.length ≠ 0) (hn : s.neg.length ≠ 0) :
    rocCIScriptFrom u s p ts powPos powNeg st =
      match scriptBootRun u s p (scriptTargetsF s p ts) (scriptTargetsG s p ts) st with
      | (.error e, st1) => (.error e, st1)
      | (.ok J, st1) => (rocCIFrom s ts powPos powNeg (fun _ _ => J), st1) := by
  obtain ⟨tf, tg⟩ := c16s_targets_defined s p hp hn ts
  unfold rocCIScriptFrom rocCIFrom
  simp only [hp, hn, or_self, if_false, tf, tg]
  rcases scriptBootRun u s p (scriptTargetsF s p ts) (scriptTargetsG s p ts) st with ⟨r, st1⟩
  cases r with
  | error e => rfl
  | ok J =>
    simp only
    cases applyRuleOfThreeO powPos (ts.map fun t => (s.cm (.fin t)).fnr) J.1 s.pos.length with
    | error e => rfl
    | ok cf =>
      simp only
      cases applyRuleOfThreeO powNeg (ts.map fun t => (s.cm (.fin t)).fpr) J.2 s.neg.length with
      | error e => rfl
      | ok cg => rfl

/-- `rocCIFrom` consults `boot` only at the curve's own rate arrays -/
theorem c16s_rocCIFrom_congr (s : Scores) (ts : List ℚ) (powPos powNeg : ℚ) (b1 b2 : BootCI)
    (h : b1 (ts.map fun t => (s.cm (.fin t)).fnr) (ts.map fun t => (s.cm (.fin t)).fpr) =
      b2 (ts.map fun t => (s.cm (.fin t)).fnr) (ts.map fun t => (s.cm (.fin t)).fpr)) :
    rocCIFrom s ts powPos powNeg b1 = rocCIFrom s ts powPos powNeg b2 := by
  unfold rocCIFrom
  simp only [h]

/-- the `BootCI` view of the script run, at the curve's rate arrays -/
theorem c16s_scriptBoot_eq (u : Ulp) (s : Scores) (p : BootParams) (ts : List ℚ) (st : RngState)
    (hp : s.pos.length ≠ 0) (hn : s.neg.length ≠ 0) (J : List OIv × List OIv)
    (hJ : (scriptBootRun u s p (scriptTargetsF s p ts) (scriptTargetsG s p ts) st).1 = .ok J) :
    scriptBoot u s p st (ts.map fun t => (s.cm (.fin t)).fnr) (ts.map fun t => (s.cm (.fin t)).fpr)
      = J := by
  obtain ⟨tf, tg⟩ := c16s_targets_defined s p hp hn ts
  unfold scriptBoot
  simp only [tf, tg, hJ]

/-- **C16 / C14 (refinement).** With a scored positive and a scored negative and a support that
exists, `roc_with_ci` on the scripted RNG is `rocWithCI` with `boot` := the script-driven joint
interval `scriptBoot` whenever `scores.bootstrap_ci(_metric)` returns; the state afterwards is the
one `bootstrap_ci` leaves.  When `bootstrap_ci` raises, so does `roc_with_ci`, in the same state. -/
theorem C16_script_refines (u : Ulp) (s : Scores) (p : BootParams) (fnr fpr thr : Option (List ℚ))
    (nb : Option ℕ) (xa : String) (powPos powNeg : ℚ) (st : RngState) (ts : List ℚ)
    (hsup : findSupportThresholdsCI u s fnr fpr thr nb rocCIExtraPoints xa = .ok ts)
    (hp : s.pos.length ≠ 0) (hn : s.neg.length ≠ 0) :
    (∀ J st1, scriptBootRun u s p (scriptTargetsF s p ts) (scriptTargetsG s p ts) st = (.ok J, st1) →
      rocWithCIScript u s p fnr fpr thr nb xa powPos powNeg st =
        (rocWithCI u s fnr fpr thr nb xa powPos powNeg (scriptBoot u s p st), st1)) ∧
    (∀ e st1, scriptBootRun u s p (scriptTargetsF s p ts) (scriptTargetsG s p ts) st = (.error e, st1) →
      rocWithCIScript u s p fnr fpr thr nb xa powPos powNeg st = (.error e, st1)) := by
  constructor
  · intro J st1 hrun
    unfold rocWithCIScript rocWithCI
    simp only [hsup]
    rw [c16s_from_eq u s p ts powPos powNeg st hp hn, hrun]
    simp only
    rw [c16s_rocCIFrom_congr s ts powPos powNeg (scriptBoot u s p st) (fun _ _ => J)]
    exact c16s_scriptBoot_eq u s p ts st hp hn J (by rw [hrun])
  · intro e st1 hrun
    unfold rocWithCIScript
    simp only [hsup]
    rw [c16s_from_eq u s p ts powPos powNeg st hp hn, hrun]

/-- **C16 (errors before any draw).** An error of the support computation, or a class without a
scored sample (`_metric(self)` raises `ValueError`), is raised with the RNG untouched, and is the
error `rocWithCI` raises for ANY `boot`. -/
theorem C16_script_errors (u : Ulp) (s : Scores) (p : BootParams) (fnr fpr thr : Option (List ℚ))
    (nb : Option ℕ) (xa : String) (powPos powNeg : ℚ) (st : RngState) (boot : BootCI) :
    (∀ e, findSupportThresholdsCI u s fnr fpr thr nb rocCIExtraPoints xa = .error e →
      rocWithCIScript u s p fnr fpr thr nb xa powPos powNeg st = (.error e, st) ∧
      rocWithCI u s fnr fpr thr nb xa powPos powNeg boot = .error e) ∧
    (∀ ts, findSupportThresholdsCI u s fnr fpr thr nb rocCIExtraPoints xa = .ok ts →
      (s.neg.length = 0 ∨ s.pos.length = 0) →
      rocWithCIScript u s p fnr fpr thr nb xa powPos powNeg st = (.error .valueError, st) ∧
      rocWithCI u s fnr fpr thr nb xa powPos powNeg boot = .error .valueError) := by
  constructor
  · intro e he
    simp only [rocWithCIScript, rocWithCI, he, and_self]
  · intro ts hts hempty
    simp only [rocWithCIScript, rocWithCI, hts, rocCIScriptFrom, rocCIFrom, hempty, if_true,
      and_self]

/-! ### the RNG state afterwards -/

/-- a loop that returns ends in the state after `n` consecutive `bootstrap_sample` calls -/
theorem c16s_drawMapped_state {α : Type} (s : Scores) (c : BootCfg) (k : Scores → Except Err α)
    (n : ℕ) (st : RngState) (l : List α) (h : (drawMapped s c k n st).1 = .ok l) :
    (drawMapped s c k n st).2 = sampleStates s c n st ∧ l.length = n := by
  induction n generalizing st l with
  | zero =>
    simp only [drawMapped] at h
    injection h with h
    subst h
    exact ⟨rfl, rfl⟩
  | succ n ih =>
    rcases hb : bootstrapSample s c st with ⟨r, st1⟩
    cases r with
    | error e => simp only [drawMapped, hb] at h; cases h
    | ok smp =>
      cases hk : k smp with
      | error e => simp only [drawMapped, hb, hk] at h; cases h
      | ok a =>
        rcases hd : drawMapped s c k n st1 with ⟨r2, st2⟩
        cases r2 with
        | error e => simp only [drawMapped, hb, hk, hd] at h; cases h
        | ok rest =>
          simp only [drawMapped, hb, hk, hd] at h
          injection h with h
          subst h
          obtain ⟨hs, hl⟩ := ih st1 rest (by rw [hd])
          rw [hd] at hs
          simp only at hs
          refine ⟨?_, by simp only [List.length_cons, hl]⟩
          simp only [drawMapped, hb, hk, hd, sampleStates]
          exact hs

/-- the state of the script model is the state of the `bootstrap_ci` run (the rule of three and
the aggregation draw nothing) -/
theorem c16s_from_state (u : Ulp) (s : Scores) (p : BootParams) (ts : List ℚ) (powPos powNeg : ℚ)
    (st : RngState) (hp : s.pos.length ≠ 0) (hn : s.neg.length ≠ 0) :
    (rocCIScriptFrom u s p ts powPos powNeg st).2 =
      (scriptBootRun u s p (scriptTargetsF s p ts) (scriptTargetsG s p ts) st).2 := by
  rw [c16s_from_eq u s p ts powPos powNeg st hp hn]
  rcases scriptBootRun u s p (scriptTargetsF s p ts) (scriptTargetsG s p ts) st with ⟨r, st1⟩
  cases r <;> rfl

/-- whenever `bootstrap_ci` returns, exactly `nb_samples` samples have been drawn -/
theorem c16s_bootRun_state (u : Ulp) (s : Scores) (p : BootParams) (fT gT : List ℚ) (st : RngState)
    (J : List OIv × List OIv) (h : (scriptBootRun u s p fT gT st).1 = .ok J) :
    (scriptBootRun u s p fT gT st).2 = sampleStates s p.cfg p.nbSamples st := by
  unfold scriptBootRun at h ⊢
  cases hm : jointMetric u fT gT s with
  | error e => simp only [hm] at h; cases h
  | ok est =>
    simp only [hm] at h ⊢
    rcases hd : drawMapped s p.cfg (jointMetric u fT gT) p.nbSamples st with ⟨r, st1⟩
    cases r with
    | error e => simp only [hd] at h; cases h
    | ok reps =>
      simp only
      have := (c16s_drawMapped_state s p.cfg (jointMetric u fT gT) p.nbSamples st reps
        (by rw [hd])).1
      rw [hd] at this
      exact this

/-- **C16 / C11 (the RNG stream).** Whenever `roc_with_ci` returns, the RNG state is the one after
exactly `nb_samples` consecutive `bootstrap_sample(config)` calls on the source, started in the
state `roc_with_ci` was called in: nothing else touches the generator (the support computation,
`_metric`, `utils.bootstrap_ci`, the rule of three and the aggregation draw nothing). -/
theorem C16_script_state (u : Ulp) (s : Scores) (p : BootParams) (fnr fpr thr : Option (List ℚ))
    (nb : Option ℕ) (xa : String) (powPos powNeg : ℚ) (st : RngState) (c : RocCICurve)
    (h : (rocWithCIScript u s p fnr fpr thr nb xa powPos powNeg st).1 = .ok c) :
    (rocWithCIScript u s p fnr fpr thr nb xa powPos powNeg st).2 =
      sampleStates s p.cfg p.nbSamples st := by
  unfold rocWithCIScript at h ⊢
  cases hsup : findSupportThresholdsCI u s fnr fpr thr nb rocCIExtraPoints xa with
  | error e => simp only [hsup] at h; cases h
  | ok ts =>
    simp only [hsup] at h ⊢
    by_cases hne : s.neg.length = 0 ∨ s.pos.length = 0
    · simp only [rocCIScriptFrom, hne, if_true] at h; cases h
    · have hp : s.pos.length ≠ 0 := fun h0 => hne (Or.inr h0)
      have hn : s.neg.length ≠ 0 := fun h0 => hne (Or.inl h0)
      rw [c16s_from_state u s p ts powPos powNeg st hp hn]
      rw [c16s_from_eq u s p ts powPos powNeg st hp hn] at h
      rcases hr : scriptBootRun u s p (scriptTargetsF s p ts) (scriptTargetsG s p ts) st with ⟨r, st1⟩
      cases r with
      | error e => rw [hr] at h; cases h
      | ok J =>
        have := c16s_bootRun_state u s p _ _ st J (by rw [hr])
        rw [hr] at this
        exact this

/-- **C16 / C11 (the request sequence).** Whenever `roc_with_ci` returns, the requests issued to
the RNG (in call order) are those issued before the call followed by the requests of
`bootstrap_sample` call `0, 1, ..., nb_samples - 1`, each started in the state its predecessor left
(`callRequests`; their shape per call is what C11 describes). -/
theorem C16_script_requests (u : Ulp) (s : Scores) (p : BootParams) (fnr fpr thr : Option (List ℚ))
    (nb : Option ℕ) (xa : String) (powPos powNeg : ℚ) (st : RngState) (c : RocCICurve)
    (h : (rocWithCIScript u s p fnr fpr thr nb xa powPos powNeg st).1 = .ok c) :
    (rocWithCIScript u s p fnr fpr thr nb xa powPos powNeg st).2.requests =
      st.requests ++ ((List.range p.nbSamples).map fun j =>
        callRequests s p.cfg (sampleStates s p.cfg j st)).flatten := by
  rw [C16_script_state u s p fnr fpr thr nb xa powPos powNeg st c h, c16s_sampleStates_requests]

/-! ### every `ok` run -/

/-- the value property the loop establishes for every replicate -/
def ReplicateOK (nF nG : ℕ) (v : JointVal) : Prop :=
  v.1.length = nG ∧ v.2.length = nF ∧ ∀ x ∈ jointFlat v, UnitO x

/-- **what an `ok` run of `scores.bootstrap_ci(_metric)` is.** Source with a scored positive and a
scored negative, runnable sampling configuration, `nb_samples ≥ 1`, final state `ok`: the point
estimate exists, `nb_samples` replicates are returned — the metric never raises on a sample, because
every sample of an `ok` draw has a scored positive and a scored negative (C11) — every replicate
has the estimate's shape and consists of defined rates in `[0,1]`, and the state is the one after
`nb_samples` draws. -/
theorem c16s_run_facts (u : Ulp) (s : Scores) (p : BootParams) (fT gT : List ℚ) (st : RngState)
    (hp : s.pos.length ≠ 0) (hn : s.neg.length ≠ 0) (hrun : c11p_Runnable s p.cfg)
    (hnb : p.nbSamples ≠ 0) (hok : (scriptBootRun u s p fT gT st).2.ok = true) :
    ∃ est reps, jointMetric u fT gT s = .ok est ∧
      drawMapped s p.cfg (jointMetric u fT gT) p.nbSamples st =
        (.ok reps, sampleStates s p.cfg p.nbSamples st) ∧
      scriptBootRun u s p fT gT st =
        (.ok (jointBootCI p.nrm p.pow15 p.method p.alpha est reps),
          sampleStates s p.cfg p.nbSamples st) ∧
      est.1.length = gT.length ∧ est.2.length = fT.length ∧ RepsFacts est reps := by
  obtain ⟨est, hest, l1, l2, hunit⟩ := c16s_jointMetric_ok u fT gT s hp hn
  have hposne : s.pos ≠ [] := fun h => hp (by rw [h]; rfl)
  have hnegne : s.neg ≠ [] := fun h => hn (by rw [h]; rfl)
  have hok' : (drawMapped s p.cfg (jointMetric u fT gT) p.nbSamples st).2.ok = true := by
    unfold scriptBootRun at hok
    simp only [hest] at hok
    rcases hd : drawMapped s p.cfg (jointMetric u fT gT) p.nbSamples st with ⟨r, st1⟩
    rw [hd] at hok
    cases r <;> exact hok
  obtain ⟨reps, hreps, hlen, hall, hstate⟩ := c16s_drawMapped_total s p.cfg (jointMetric u fT gT)
    (ReplicateOK fT.length gT.length) hrun
    (fun st0 smp h1 h2 => by
      obtain ⟨w1, w2, _, _⟩ := c16s_sample_wellformed s p.cfg st0 smp h1 h2
      have q1 : smp.pos.length ≠ 0 := fun h => w1 hposne (List.eq_nil_of_length_eq_zero h)
      have q2 : smp.neg.length ≠ 0 := fun h => w2 hnegne (List.eq_nil_of_length_eq_zero h)
      obtain ⟨v, hv, a1, a2, a3⟩ := c16s_jointMetric_ok u fT gT smp q1 q2
      exact ⟨v, hv, a1, a2, a3⟩)
    p.nbSamples st hok'
  have hd : drawMapped s p.cfg (jointMetric u fT gT) p.nbSamples st =
      (.ok reps, sampleStates s p.cfg p.nbSamples st) := Prod.ext hreps hstate
  refine ⟨est, reps, hest, hd, ?_, l1, l2, ?_⟩
  · unfold scriptBootRun
    simp only [hest, hd]
  · refine ⟨?_, ?_, ?_, hunit⟩
    · intro h
      rw [h] at hlen
      exact hnb hlen.symm
    · intro v hv
      obtain ⟨a1, a2, _⟩ := hall v hv
      exact ⟨by rw [a1, l1], by rw [a2, l2]⟩
    · intro v hv
      exact (hall v hv).2.2

/-- the closed form of `rocCIFrom` with rows that are in `[0,1]` (and ordered if `ord`): NaN-free,
in `[0,1]`, ordered if `ord` -/
theorem c16s_bands_good (s : Scores) (ts : List ℚ) (powPos powNeg : ℚ) (boot : BootCI)
    (c : RocCICurve) (h : rocCIFrom s ts powPos powNeg boot = .ok c) (bf bg : List Iv)
    (hb : boot c.fnr c.fpr = (bf.map Iv.lift, bg.map Iv.lift))
    (hp0 : 0 ≤ powPos) (hp1 : powPos ≤ 1) (hn0 : 0 ≤ powNeg) (hn1 : powNeg ≤ 1) (ord : Prop)
    (gf : ∀ r ∈ bf, RowGood ord r) (gg : ∀ r ∈ bg, RowGood ord r) :
    (C16.nanFreeOK c.fnrCI = true ∧ C16.unitOK 0 c.fnrCI = true ∧
      (ord → C16.orderedOK c.fnrCI = true)) ∧
    (C16.nanFreeOK c.fprCI = true ∧ C16.unitOK 0 c.fprCI = true ∧
      (ord → C16.orderedOK c.fprCI = true)) := by
  obtain ⟨_, _, e3, e4⟩ := C16_closed_form s ts powPos powNeg boot c h bf bg hb
  have ordF : ord → ∀ r ∈ ruleOfThreeRows powPos s.pos.length (ts.map s.fnrQ) bf, r.1 ≤ r.2 := by
    intro ho r hr
    obtain ⟨pj, cj, hcj, rfl⟩ := mem_ruleOfThreeRows _ _ _ _ r hr
    exact (ruleOfThreeRow_wf powPos hp0 hp1 _ pj cj).1 ((gf cj hcj).2 ho)
  have ordG : ord → ∀ r ∈ ruleOfThreeRows powNeg s.neg.length (ts.map s.fprQ) bg, r.1 ≤ r.2 := by
    intro ho r hr
    obtain ⟨pj, cj, hcj, rfl⟩ := mem_ruleOfThreeRows _ _ _ _ r hr
    exact (ruleOfThreeRow_wf powNeg hn0 hn1 _ pj cj).1 ((gg cj hcj).2 ho)
  have unF : ∀ r ∈ ruleOfThreeRows powPos s.pos.length (ts.map s.fnrQ) bf,
      (0 ≤ r.1 ∧ r.1 ≤ 1) ∧ (0 ≤ r.2 ∧ r.2 ≤ 1) := by
    intro r hr
    obtain ⟨pj, cj, hcj, rfl⟩ := mem_ruleOfThreeRows _ _ _ _ r hr
    exact (ruleOfThreeRow_wf powPos hp0 hp1 _ pj cj).2 (gf cj hcj).1
  have unG : ∀ r ∈ ruleOfThreeRows powNeg s.neg.length (ts.map s.fprQ) bg,
      (0 ≤ r.1 ∧ r.1 ≤ 1) ∧ (0 ≤ r.2 ∧ r.2 ≤ 1) := by
    intro r hr
    obtain ⟨pj, cj, hcj, rfl⟩ := mem_ruleOfThreeRows _ _ _ _ r hr
    exact (ruleOfThreeRow_wf powNeg hn0 hn1 _ pj cj).2 (gg cj hcj).1
  rw [e3, e4]
  exact ⟨⟨c16_nanFreeOK_lift _, c16_unitOK_lift _ (C16_unit_interval _ _ _ unF),
      fun ho => c16_orderedOK_lift _ (C16_ordered _ _ _ (ordF ho))⟩,
    ⟨c16_nanFreeOK_lift _, c16_unitOK_lift _ (C16_unit_interval _ _ _ unG),
      fun ho => c16_orderedOK_lift _ (C16_ordered _ _ _ (ordG ho))⟩⟩

/-- the rows of the two halves of the joint interval are the rows of the interval array -/
theorem c16s_joint_rows (nrm : Normal) (p15 : ℚ → ℚ) (m : BootMethod) (al : ℚ) (est : JointVal)
    (reps : List JointVal) :
    (jointBootCI nrm p15 m al est reps).1 ++ (jointBootCI nrm p15 m al est reps).2 =
      bootstrapCIOf nrm p15 m (fun j => reps.getD j est) jointFlat est reps.length al := by
  simp only [jointBootCI, List.take_append_drop]

/-- the conclusions of the well-formedness theorems about a returned curve `c` -/
def ScriptCurveOK (ts : List ℚ) (c : RocCICurve) (ord : Prop) : Prop :=
  c.thresholds = ts ∧
  (C16.shapeOK ts.length c.fnrCI = true ∧ C16.shapeOK ts.length c.fprCI = true) ∧
  (C16.nanFreeOK c.fnrCI = true ∧ C16.nanFreeOK c.fprCI = true) ∧
  (C16.unitOK 0 c.fnrCI = true ∧ C16.unitOK 0 c.fprCI = true) ∧
  (ord → C16.orderedOK c.fnrCI = true ∧ C16.orderedOK c.fprCI = true)

/-- core of the well-formedness theorems, after the thresholds: `ord` is any proposition that
implies that every pointwise bootstrap interval of the run is ordered -/
theorem c16s_from_wellformed (u : Ulp) (s : Scores) (p : BootParams) (ts : List ℚ)
    (powPos powNeg : ℚ) (st : RngState) (hp : s.pos.length ≠ 0) (hn : s.neg.length ≠ 0)
    (hrun : c11p_Runnable s p.cfg) (hnb : p.nbSamples ≠ 0)
    (hp0 : 0 ≤ powPos) (hp1 : powPos ≤ 1) (hn0 : 0 ≤ powNeg) (hn1 : powNeg ≤ 1)
    (hok : (rocCIScriptFrom u s p ts powPos powNeg st).2.ok = true) (ord : Prop)
    (hord : ∀ est reps, (scriptBootRun u s p (scriptTargetsF s p ts) (scriptTargetsG s p ts) st).1 =
        .ok (jointBootCI p.nrm p.pow15 p.method p.alpha est reps) → RepsFacts est reps → ord →
      ∀ r ∈ bootstrapCIOf p.nrm p.pow15 p.method (fun j => reps.getD j est) jointFlat est
        reps.length p.alpha, optLe r.1 r.2) :
    ∃ c, rocCIScriptFrom u s p ts powPos powNeg st =
        (.ok c, sampleStates s p.cfg p.nbSamples st) ∧ ScriptCurveOK ts c ord := by
  rw [c16s_from_state u s p ts powPos powNeg st hp hn] at hok
  obtain ⟨est, reps, _, _, hrunEq, l1, l2, facts⟩ :=
    c16s_run_facts u s p _ _ st hp hn hrun hnb hok
  obtain ⟨bf, bg, hJ, lf, lg, gf, gg⟩ := c16s_jointBootCI_facts p.nrm p.pow15 p.method p.alpha
    est reps facts ord (hord est reps (by rw [hrunEq]) facts)
  obtain ⟨c, hc⟩ := rocCIFrom_total s ts powPos powNeg
    (fun _ _ => jointBootCI p.nrm p.pow15 p.method p.alpha est reps) hp hn
  have lf' : bf.length = ts.length := by
    rw [lf, l1]; simp [scriptTargetsG]
  have lg' : bg.length = ts.length := by
    rw [lg, l2]; simp [scriptTargetsF]
  obtain ⟨s1, s2, _, _⟩ := C16_length s ts powPos powNeg _ c hc bf bg hJ lf' lg'
  obtain ⟨_, _, ht, _⟩ := rocCIFrom_ok s ts powPos powNeg _ c hc
  obtain ⟨⟨n1, u1, o1⟩, ⟨n2, u2, o2⟩⟩ := c16s_bands_good s ts powPos powNeg _ c hc bf bg hJ
    hp0 hp1 hn0 hn1 ord gf gg
  refine ⟨c, ?_, ht, ?_, ⟨n1, n2⟩, ⟨u1, u2⟩, fun ho => ⟨o1 ho, o2 ho⟩⟩
  · rw [c16s_from_eq u s p ts powPos powNeg st hp hn, hrunEq]
    simp only [hc]
  · rw [ht] at s1 s2
    exact ⟨s1, s2⟩

/-- the same for `roc_with_ci` itself -/
theorem c16s_wellformed_top (u : Ulp) (s : Scores) (p : BootParams) (fnr fpr thr : Option (List ℚ))
    (nb : Option ℕ) (xa : String) (powPos powNeg : ℚ) (st : RngState) (ts : List ℚ)
    (hsup : findSupportThresholdsCI u s fnr fpr thr nb rocCIExtraPoints xa = .ok ts)
    (hp : s.pos.length ≠ 0) (hn : s.neg.length ≠ 0)
    (hrun : c11p_Runnable s p.cfg) (hnb : p.nbSamples ≠ 0)
    (hp0 : 0 ≤ powPos) (hp1 : powPos ≤ 1) (hn0 : 0 ≤ powNeg) (hn1 : powNeg ≤ 1)
    (hok : (rocWithCIScript u s p fnr fpr thr nb xa powPos powNeg st).2.ok = true) (ord : Prop)
    (hord : ∀ est reps, (scriptBootRun u s p (scriptTargetsF s p ts) (scriptTargetsG s p ts) st).1 =
        .ok (jointBootCI p.nrm p.pow15 p.method p.alpha est reps) → RepsFacts est reps → ord →
      ∀ r ∈ bootstrapCIOf p.nrm p.pow15 p.method (fun j => reps.getD j est) jointFlat est
        reps.length p.alpha, optLe r.1 r.2) :
    ∃ c, rocWithCIScript u s p fnr fpr thr nb xa powPos powNeg st =
        (.ok c, sampleStates s p.cfg p.nbSamples st) ∧ ScriptCurveOK ts c ord := by
  have e : rocWithCIScript u s p fnr fpr thr nb xa powPos powNeg st =
      rocCIScriptFrom u s p ts powPos powNeg st := by
    simp only [rocWithCIScript, hsup]
  rw [e] at hok ⊢
  exact c16s_from_wellformed u s p ts powPos powNeg st hp hn hrun hnb hp0 hp1 hn0 hn1 hok ord hord

/-- **C16 (well-formed bands on every `ok` run, all three methods).**
Hypotheses: the source has a scored positive and a scored negative; the support computation
returns (`C16_total` gives the conditions); the sampling configuration is one that does not raise
by design (`c11p_Runnable`: replacement — explicit or chosen by "dynamic" —, single-pass,
proportion with a feasible ratio; stratified or not); smoothing off (the noise is not modelled);
`nb_samples ≥ 1`; `0 ≤ pow(alpha, 1/n) ≤ 1`; and the run is `ok`, i.e. EVERY answer of the script
lies in the support of its request and the script does not run out.  No hypothesis on the
normal / power oracles, on alpha, or on the rate-rounding oracle.
Conclusion: `roc_with_ci` returns a curve on the computed thresholds, the RNG is left in the state
after exactly `nb_samples` draws, both bands have one row per threshold, contain no NaN and lie in
`[0, 1]` — for the quantile, BC and BCa methods alike (every limit is a linear quantile of replicates
that are rates) — and they are ordered whenever all pointwise bootstrap intervals
(`scriptBoot … fnr fpr`) are ordered (quantile: always, `C16_script_wellformed_quantile`; BC: lawful
normal oracles, `C16_script_wellformed_bc`; BCa: `C13_ordered_bca` gives it per component on the branch
`a (z0 + z_alpha) < 1`). -/
theorem C16_script_wellformed (u : Ulp) (s : Scores) (p : BootParams) (fnr fpr thr : Option (List ℚ))
    (nb : Option ℕ) (xa : String) (powPos powNeg : ℚ) (st : RngState) (ts : List ℚ)
    (hsup : findSupportThresholdsCI u s fnr fpr thr nb rocCIExtraPoints xa = .ok ts)
    (hp : s.pos.length ≠ 0) (hn : s.neg.length ≠ 0)
    (hrun : c11p_Runnable s p.cfg) (_hsm : p.cfg.smoothing = false) (hnb : p.nbSamples ≠ 0)
    (hp0 : 0 ≤ powPos) (hp1 : powPos ≤ 1) (hn0 : 0 ≤ powNeg) (hn1 : powNeg ≤ 1)
    (hok : (rocWithCIScript u s p fnr fpr thr nb xa powPos powNeg st).2.ok = true) :
    ∃ c, rocWithCIScript u s p fnr fpr thr nb xa powPos powNeg st =
        (.ok c, sampleStates s p.cfg p.nbSamples st) ∧
      ScriptCurveOK ts c (∀ r ∈ (scriptBoot u s p st c.fnr c.fpr).1 ++
        (scriptBoot u s p st c.fnr c.fpr).2, optLe r.1 r.2) := by
  obtain ⟨c, hc, hgood⟩ := c16s_wellformed_top u s p fnr fpr thr nb xa powPos powNeg st ts hsup hp hn
    hrun hnb hp0 hp1 hn0 hn1 hok
    (∀ r ∈ (scriptBoot u s p st (ts.map fun t => (s.cm (.fin t)).fnr)
        (ts.map fun t => (s.cm (.fin t)).fpr)).1 ++
      (scriptBoot u s p st (ts.map fun t => (s.cm (.fin t)).fnr)
        (ts.map fun t => (s.cm (.fin t)).fpr)).2, optLe r.1 r.2)
    (by
      intro est reps hJ _ ho
      rw [c16s_scriptBoot_eq u s p ts st hp hn _ hJ, c16s_joint_rows] at ho
      exact ho)
  refine ⟨c, hc, ?_⟩
  -- the curve's rate arrays are the rates at the thresholds
  have hcurve : rocWithCI u s fnr fpr thr nb xa powPos powNeg (scriptBoot u s p st) = .ok c := by
    obtain ⟨est, reps, _, _, hrunEq, _⟩ := c16s_run_facts u s p (scriptTargetsF s p ts)
      (scriptTargetsG s p ts) st hp hn hrun hnb (by
        have e : rocWithCIScript u s p fnr fpr thr nb xa powPos powNeg st =
            rocCIScriptFrom u s p ts powPos powNeg st := by simp only [rocWithCIScript, hsup]
        rw [e, c16s_from_state u s p ts powPos powNeg st hp hn] at hok
        exact hok)
    have := (C16_script_refines u s p fnr fpr thr nb xa powPos powNeg st ts hsup hp hn).1 _ _ hrunEq
    rw [hc] at this
    exact (Prod.ext_iff.mp this).1.symm
  obtain ⟨hts, hf, hg, _⟩ := C16_rates_match u s fnr fpr thr nb xa powPos powNeg _ c hcurve
  rw [hsup] at hts
  injection hts with hts
  rw [hf, hg, ← hts]
  exact hgood

/-- **C16 (quantile method): also ordered.** Under the hypotheses of `C16_script_wellformed`, the
quantile method and `0 ≤ alpha ≤ 1`: shape, NaN-free, `[0,1]` AND `lower ≤ upper` in every row of both
bands, for every `ok` run. -/
theorem C16_script_wellformed_quantile (u : Ulp) (s : Scores) (p : BootParams)
    (fnr fpr thr : Option (List ℚ)) (nb : Option ℕ) (xa : String) (powPos powNeg : ℚ)
    (st : RngState) (ts : List ℚ)
    (hsup : findSupportThresholdsCI u s fnr fpr thr nb rocCIExtraPoints xa = .ok ts)
    (hp : s.pos.length ≠ 0) (hn : s.neg.length ≠ 0)
    (hrun : c11p_Runnable s p.cfg) (_hsm : p.cfg.smoothing = false) (hnb : p.nbSamples ≠ 0)
    (hm : p.method = .quantile) (ha0 : 0 ≤ p.alpha) (ha1 : p.alpha ≤ 1)
    (hp0 : 0 ≤ powPos) (hp1 : powPos ≤ 1) (hn0 : 0 ≤ powNeg) (hn1 : powNeg ≤ 1)
    (hok : (rocWithCIScript u s p fnr fpr thr nb xa powPos powNeg st).2.ok = true) :
    ∃ c, rocWithCIScript u s p fnr fpr thr nb xa powPos powNeg st =
        (.ok c, sampleStates s p.cfg p.nbSamples st) ∧ ScriptCurveOK ts c True := by
  apply c16s_wellformed_top u s p fnr fpr thr nb xa powPos powNeg st ts hsup hp hn hrun hnb hp0 hp1
    hn0 hn1 hok True
  intro est reps _ facts _ r hr
  obtain ⟨col, th, _, _, rfl⟩ := c16s_bootCIOf_rows p.nrm p.pow15 p.method p.alpha est reps facts r hr
  rw [hm]
  exact C13_ordered_quantile p.nrm p.pow15 col th p.alpha ha0 ha1

/-- **C16 (BC method): also ordered** with lawful normal oracles (monotone cdf / ppf, cdf ≥ 0, ppf
finite inside `(0,1)`) and `0 < alpha < 1`. -/
theorem C16_script_wellformed_bc (u : Ulp) (s : Scores) (p : BootParams)
    (fnr fpr thr : Option (List ℚ)) (nb : Option ℕ) (xa : String) (powPos powNeg : ℚ)
    (st : RngState) (ts : List ℚ)
    (hsup : findSupportThresholdsCI u s fnr fpr thr nb rocCIExtraPoints xa = .ok ts)
    (hp : s.pos.length ≠ 0) (hn : s.neg.length ≠ 0)
    (hrun : c11p_Runnable s p.cfg) (_hsm : p.cfg.smoothing = false) (hnb : p.nbSamples ≠ 0)
    (hm : p.method = .bc) (hlaw : p.nrm.Lawful) (ha0 : 0 < p.alpha) (ha1 : p.alpha < 1)
    (hp0 : 0 ≤ powPos) (hp1 : powPos ≤ 1) (hn0 : 0 ≤ powNeg) (hn1 : powNeg ≤ 1)
    (hok : (rocWithCIScript u s p fnr fpr thr nb xa powPos powNeg st).2.ok = true) :
    ∃ c, rocWithCIScript u s p fnr fpr thr nb xa powPos powNeg st =
        (.ok c, sampleStates s p.cfg p.nbSamples st) ∧ ScriptCurveOK ts c True := by
  apply c16s_wellformed_top u s p fnr fpr thr nb xa powPos powNeg st ts hsup hp hn hrun hnb hp0 hp1
    hn0 hn1 hok True
  intro est reps _ facts _ r hr
  obtain ⟨col, th, _, _, rfl⟩ := c16s_bootCIOf_rows p.nrm p.pow15 p.method p.alpha est reps facts r hr
  rw [hm]
  exact C13_ordered_bc p.nrm hlaw p.pow15 col th p.alpha ha0 ha1

/-- **C16 / C11 (the script is consumed by exactly those requests).** Whenever `roc_with_ci`
returns on a runnable sampling configuration and the run is `ok`: the (request, answer) pairs
recorded during the call are `new` (in call order, appended to those recorded before), and the
answers of `new` are EXACTLY the part of the script read by the call, in order — one answer per
request, nothing skipped, nothing read twice; what is left of the script is untouched.  Together
with `C16_script_requests`: the script is consumed by exactly the requests of `nb_samples`
consecutive `bootstrap_sample` calls. -/
theorem C16_script_consumes (u : Ulp) (s : Scores) (p : BootParams) (fnr fpr thr : Option (List ℚ))
    (nb : Option ℕ) (xa : String) (powPos powNeg : ℚ) (st : RngState) (c : RocCICurve)
    (hrun : c11p_Runnable s p.cfg)
    (h : (rocWithCIScript u s p fnr fpr thr nb xa powPos powNeg st).1 = .ok c)
    (hok : (rocWithCIScript u s p fnr fpr thr nb xa powPos powNeg st).2.ok = true) :
    ∃ new : List (Req × List ℕ),
      (rocWithCIScript u s p fnr fpr thr nb xa powPos powNeg st).2.paired = st.paired ++ new ∧
      (rocWithCIScript u s p fnr fpr thr nb xa powPos powNeg st).2.requests =
        st.requests ++ new.map (·.1) ∧
      st.responses = new.map (·.2) ++
        (rocWithCIScript u s p fnr fpr thr nb xa powPos powNeg st).2.responses := by
  have hstate := C16_script_state u s p fnr fpr thr nb xa powPos powNeg st c h
  rw [hstate] at hok ⊢
  obtain ⟨l, ht, hr⟩ := c16s_sampleStates_consumed s p.cfg hrun p.nbSamples st hok
  refine ⟨l.reverse, ?_, ?_, hr⟩
  · simp only [RngState.paired, ht, List.reverse_append]
  · simp only [RngState.requests, RngState.paired, ht, List.reverse_append, List.map_append]

/-! ### the samples of an `ok` run (C11 inside `roc_with_ci`) -/

/-- **C16 / C11 (the samples).** Every sample drawn during an `ok` run of a runnable configuration
— from whatever state of the script — has a scored positive and a scored negative when the source
has, keeps the source's flags and is sorted when the source is; the loop draws `n` of them and
ends in the state after `n` draws. -/
theorem C16_script_samples (s : Scores) (c : BootCfg) (n : ℕ) (st : RngState)
    (hrun : c11p_Runnable s c) (hok : (drawSamples s c n st).2.ok = true) :
    ∃ L, drawSamples s c n st = (.ok L, sampleStates s c n st) ∧ L.length = n ∧
      ∀ smp ∈ L, (s.pos ≠ [] → smp.pos ≠ []) ∧ (s.neg ≠ [] → smp.neg ≠ []) ∧ smp.cfg = s.cfg ∧
        (Inv s → Inv smp) := by
  unfold drawSamples at hok ⊢
  obtain ⟨L, hL, hlen, hall, hstate⟩ := c16s_drawMapped_total s c (fun smp => .ok smp)
    (fun smp => (s.pos ≠ [] → smp.pos ≠ []) ∧ (s.neg ≠ [] → smp.neg ≠ []) ∧ smp.cfg = s.cfg ∧
      (Inv s → Inv smp)) hrun
    (fun st0 smp h1 h2 => ⟨smp, rfl, c16s_sample_wellformed s c st0 smp h1 h2⟩) n st hok
  exact ⟨L, Prod.ext hL hstate, hlen, hall⟩

/-! ### identity script -/

theorem c16s_sortQ_of_sorted (l : List ℚ) (h : l.Pairwise (· ≤ ·)) : sortQ l = l :=
  List.Perm.eq_of_pairwise' (r := (· ≤ ·)) (sortQ_pairwise l) h (sortQ_perm l)

/-- on the identity script (`identityScript`, SA/Proofs/Sampling.lean: every stratum keeps its
size, every index is drawn once) a sorted source is its own sample; the answers after it are left -/
theorem c16s_sample_identity (s : Scores) (c : BootCfg) (sp : Bool) (st : RngState)
    (rest : List (List ℕ)) (hinv : Inv s)
    (hm : (samplingMethod s c = .replacement ∧ sp = false) ∨
      (samplingMethod s c = .singlePass ∧ sp = true))
    (hsm : c.smoothing = false) (hok : st.ok = true)
    (hr : st.responses = identityScript s c.byLabel sp ++ rest) :
    (bootstrapSample s c st).1 = .ok s ∧ (bootstrapSample s c st).2.ok = true ∧
      (bootstrapSample s c st).2.responses = rest := by
  obtain ⟨e1, e2, e3⟩ := c11p_sampleIndices_identity_rest s c.byLabel sp st rest hok hr
  have hmake : ∀ b, Scores.make (gather s.pos (List.range s.pos.length))
      (gather s.neg (List.range s.neg.length)) s.easyPos s.easyNeg s.cfg b = s := by
    intro b
    rw [gather_range, gather_range]
    cases b
    · simp only [Scores.make, Bool.false_eq_true, if_false, c16s_sortQ_of_sorted _ hinv.1,
        c16s_sortQ_of_sorted _ hinv.2]
    · simp only [Scores.make, if_true]
  unfold bootstrapSample
  rcases hm with ⟨hm, rfl⟩ | ⟨hm, rfl⟩
  · simp only [hm, hsm, Bool.false_eq_true, if_false, e1, e2, e3, hmake, and_self]
  · simp only [hm, hsm, Bool.false_eq_true, if_false, e1, e2, e3, hmake, and_self]

/-- the loop on `n` copies of the identity script: `n` times the value of `k` on the source -/
theorem c16s_drawMapped_identity {α : Type} (s : Scores) (c : BootCfg) (k : Scores → Except Err α)
    (a : α) (hk : k s = .ok a) (sp : Bool) (rest : List (List ℕ)) (hinv : Inv s)
    (hm : (samplingMethod s c = .replacement ∧ sp = false) ∨
      (samplingMethod s c = .singlePass ∧ sp = true))
    (hsm : c.smoothing = false) (n : ℕ) (st : RngState) (hok : st.ok = true)
    (hr : st.responses = (List.replicate n (identityScript s c.byLabel sp)).flatten ++ rest) :
    (drawMapped s c k n st).1 = .ok (List.replicate n a) ∧ (drawMapped s c k n st).2.ok = true ∧
      (drawMapped s c k n st).2.responses = rest := by
  induction n generalizing st with
  | zero =>
    simp only [List.replicate_zero, List.flatten_nil, List.nil_append] at hr
    exact ⟨rfl, hok, hr⟩
  | succ n ih =>
    rw [List.replicate_succ, List.flatten_cons, List.append_assoc] at hr
    obtain ⟨b1, b2, b3⟩ := c16s_sample_identity s c sp st _ hinv hm hsm hok hr
    rcases hb : bootstrapSample s c st with ⟨r, st1⟩
    rw [hb] at b1 b2 b3
    simp only at b1 b2 b3
    subst b1
    obtain ⟨i1, i2, i3⟩ := ih st1 b2 b3
    rcases hd : drawMapped s c k n st1 with ⟨r2, st2⟩
    rw [hd] at i1 i2 i3
    simp only at i1 i2 i3
    subst i1
    simp only [drawMapped, hb, hk, hd, List.replicate_succ, i2, i3, and_self]

theorem c16s_exists_map_some (l : List (Option ℚ)) (h : ∀ x ∈ l, UnitO x) :
    ∃ l' : List ℚ, l = l'.map some := by
  induction l with
  | nil => exact ⟨[], rfl⟩
  | cons x rest ih =>
    obtain ⟨q, rfl, _⟩ := h x (List.mem_cons_self ..)
    obtain ⟨l', hl'⟩ := ih (fun y hy => h y (List.mem_cons_of_mem _ hy))
    exact ⟨q :: l', by simp only [List.map_cons, hl']⟩

/-- every replicate equal to the (defined) estimate: each pointwise interval is
`(estimate, estimate)`, all three methods, any oracles (`C14_identity`) -/
theorem c16s_jointBootCI_identity (nrm : Normal) (p15 : ℚ → ℚ) (m : BootMethod) (al : ℚ)
    (eF eG : List ℚ) (n : ℕ) (hn : n ≠ 0) :
    jointBootCI nrm p15 m al (eF.map some, eG.map some)
        (List.replicate n (eF.map some, eG.map some)) =
      identityBoot (eF.map some) (eG.map some) [] [] := by
  have hid := C14_identity nrm p15 m
    (fun j => (List.replicate n ((eF.map some, eG.map some) : JointVal)).getD j
      (eF.map some, eG.map some)) jointFlat (eF.map some, eG.map some) n al
    (fun j hj => by
      rw [c16s_getD_eq _ _ _ (by simpa using hj)]
      simp)
    (by omega)
    (fun e he => by
      simp only [jointFlat, List.mem_append, List.mem_map] at he
      rcases he with ⟨q, _, rfl⟩ | ⟨q, _, rfl⟩ <;> simp)
  simp only [jointBootCI, List.length_replicate, hid, identityBoot, jointFlat, List.map_append,
    List.length_map]
  refine Prod.ext ?_ ?_
  · exact List.take_left' (by simp)
  · exact List.drop_left' (by simp)

/-- `scores.bootstrap_ci(_metric)` on `nb_samples` copies of the identity script: the interval of
the identity sampler -/
theorem c16s_bootRun_identity (u : Ulp) (s : Scores) (p : BootParams) (fT gT : List ℚ)
    (st : RngState) (sp : Bool) (rest : List (List ℕ))
    (hp : s.pos.length ≠ 0) (hn : s.neg.length ≠ 0) (hinv : Inv s)
    (hm : (samplingMethod s p.cfg = .replacement ∧ sp = false) ∨
      (samplingMethod s p.cfg = .singlePass ∧ sp = true))
    (hsm : p.cfg.smoothing = false) (hnb : p.nbSamples ≠ 0) (hst : st.ok = true)
    (hscript : st.responses =
      (List.replicate p.nbSamples (identityScript s p.cfg.byLabel sp)).flatten ++ rest) :
    ∃ (eF eG : List ℚ) (st1 : RngState),
      jointMetric u fT gT s = .ok (eF.map some, eG.map some) ∧
      scriptBootRun u s p fT gT st =
        (.ok (identityBoot (eF.map some) (eG.map some) [] []), st1) ∧
      st1.ok = true ∧ st1.responses = rest := by
  obtain ⟨est, hest, _, _, hunit⟩ := c16s_jointMetric_ok u fT gT s hp hn
  obtain ⟨eF, hF⟩ := c16s_exists_map_some est.1 (fun x hx => hunit x (by
    simp only [jointFlat, List.mem_append]; exact Or.inl hx))
  obtain ⟨eG, hG⟩ := c16s_exists_map_some est.2 (fun x hx => hunit x (by
    simp only [jointFlat, List.mem_append]; exact Or.inr hx))
  have hest' : est = (eF.map some, eG.map some) := Prod.ext hF hG
  rw [hest'] at hest
  obtain ⟨d1, d2, d3⟩ := c16s_drawMapped_identity s p.cfg (jointMetric u fT gT) _ hest sp rest hinv
    hm hsm p.nbSamples st hst hscript
  rcases hd : drawMapped s p.cfg (jointMetric u fT gT) p.nbSamples st with ⟨r, st1⟩
  rw [hd] at d1 d2 d3
  simp only at d1 d2 d3
  subst d1
  refine ⟨eF, eG, st1, hest, ?_, d2, d3⟩
  unfold scriptBootRun
  simp only [hest, hd, c16s_jointBootCI_identity _ _ _ _ eF eG p.nbSamples hnb]

/-- **C16 (identity script).** Sorted source with a scored positive and a scored negative,
replacement or single-pass sampling (stratified or not, smoothing off), `nb_samples ≥ 1`, and the
script consisting of `nb_samples` copies of the identity script: every sample is the source
itself, every replicate equals the point estimate `(eF, eG) = _metric(self)`, and `roc_with_ci`
returns exactly what `rocWithCI` returns with the identity sampler's interval `identityBoot` — the
bands of `C16_identity_closed_form` — leaving the rest of the script unread and the run `ok`. -/
theorem C16_script_identity (u : Ulp) (s : Scores) (p : BootParams) (fnr fpr thr : Option (List ℚ))
    (nb : Option ℕ) (xa : String) (powPos powNeg : ℚ) (st : RngState) (ts : List ℚ) (sp : Bool)
    (rest : List (List ℕ))
    (hsup : findSupportThresholdsCI u s fnr fpr thr nb rocCIExtraPoints xa = .ok ts)
    (hp : s.pos.length ≠ 0) (hn : s.neg.length ≠ 0) (hinv : Inv s)
    (hm : (samplingMethod s p.cfg = .replacement ∧ sp = false) ∨
      (samplingMethod s p.cfg = .singlePass ∧ sp = true))
    (hsm : p.cfg.smoothing = false) (hnb : p.nbSamples ≠ 0) (hst : st.ok = true)
    (hscript : st.responses =
      (List.replicate p.nbSamples (identityScript s p.cfg.byLabel sp)).flatten ++ rest) :
    ∃ (eF eG : List ℚ) (st1 : RngState),
      jointMetric u (scriptTargetsF s p ts) (scriptTargetsG s p ts) s = .ok (eF.map some, eG.map some) ∧
      rocWithCIScript u s p fnr fpr thr nb xa powPos powNeg st =
        (rocWithCI u s fnr fpr thr nb xa powPos powNeg (identityBoot (eF.map some) (eG.map some)),
          st1) ∧
      st1.ok = true ∧ st1.responses = rest := by
  obtain ⟨eF, eG, st1, hest, hrunEq, d2, d3⟩ := c16s_bootRun_identity u s p (scriptTargetsF s p ts)
    (scriptTargetsG s p ts) st sp rest hp hn hinv hm hsm hnb hst hscript
  refine ⟨eF, eG, st1, hest, ?_, d2, d3⟩
  rw [(C16_script_refines u s p fnr fpr thr nb xa powPos powNeg st ts hsup hp hn).1 _ _ hrunEq]
  congr 1
  unfold rocWithCI
  simp only [hsup]
  apply c16s_rocCIFrom_congr
  rw [c16s_scriptBoot_eq u s p ts st hp hn _ (by rw [hrunEq])]
  rfl

/-! ### `pointwise_band_ci` -/

/-- **C16 / C14 (refinement, `pointwise_band_ci`).** The script model is `pointwiseBandCI` with
`boot` := `scriptBoot`; errors of `bootstrap_ci` propagate. -/
theorem C16_script_pointwise_refines (u : Ulp) (s : Scores) (p : BootParams)
    (fnr fpr thr : Option (List ℚ)) (nb : Option ℕ) (powPos powNeg : ℚ) (st : RngState) (ts : List ℚ)
    (hsup : findSupportThresholds u s fnr fpr thr nb "fnr" = .ok ts)
    (hp : s.pos.length ≠ 0) (hn : s.neg.length ≠ 0) :
    (∀ J st1, scriptBootRun u s p (scriptTargetsF s p ts) (scriptTargetsG s p ts) st = (.ok J, st1) →
      pointwiseBandCIScript u s p fnr fpr thr nb powPos powNeg st =
        (pointwiseBandCI u s fnr fpr thr nb powPos powNeg (scriptBoot u s p st), st1)) ∧
    (∀ e st1, scriptBootRun u s p (scriptTargetsF s p ts) (scriptTargetsG s p ts) st = (.error e, st1) →
      pointwiseBandCIScript u s p fnr fpr thr nb powPos powNeg st = (.error e, st1)) := by
  obtain ⟨tf, tg⟩ := c16s_targets_defined s p hp hn ts
  constructor
  · intro J st1 hrun
    have hb := c16s_scriptBoot_eq u s p ts st hp hn J (by rw [hrun])
    unfold pointwiseBandCIScript pointwiseBandCI pointwiseScriptFrom
    simp only [hsup, hp, hn, or_self, if_false, tf, tg, hrun, hb]
    cases applyRuleOfThreeO powPos (ts.map fun t => (s.cm (.fin t)).fnr) J.1 s.pos.length with
    | error e => rfl
    | ok cf =>
      simp only
      cases applyRuleOfThreeO powNeg (ts.map fun t => (s.cm (.fin t)).fpr) J.2 s.neg.length with
      | error e => rfl
      | ok cg => rfl
  · intro e st1 hrun
    unfold pointwiseBandCIScript pointwiseScriptFrom
    simp only [hsup, hp, hn, or_self, if_false, tf, tg, hrun]

/-- the script model of `pointwise_band_ci` in terms of the run of `bootstrap_ci` -/
theorem c16s_pointwise_eq (u : Ulp) (s : Scores) (p : BootParams)
    (fnr fpr thr : Option (List ℚ)) (nb : Option ℕ) (powPos powNeg : ℚ) (st : RngState) (ts : List ℚ)
    (hsup : findSupportThresholds u s fnr fpr thr nb "fnr" = .ok ts)
    (hp : s.pos.length ≠ 0) (hn : s.neg.length ≠ 0) :
    pointwiseBandCIScript u s p fnr fpr thr nb powPos powNeg st =
      match scriptBootRun u s p (scriptTargetsF s p ts) (scriptTargetsG s p ts) st with
      | (.error e, st1) => (.error e, st1)
      | (.ok J, st1) => (pointwiseBandCI u s fnr fpr thr nb powPos powNeg (fun _ _ => J), st1) := by
  obtain ⟨tf, tg⟩ := c16s_targets_defined s p hp hn ts
  unfold pointwiseBandCIScript pointwiseBandCI pointwiseScriptFrom
  simp only [hsup, hp, hn, or_self, if_false, tf, tg]
  rcases scriptBootRun u s p (scriptTargetsF s p ts) (scriptTargetsG s p ts) st with ⟨r, st1⟩
  cases r with
  | error e => rfl
  | ok J =>
    simp only
    cases applyRuleOfThreeO powPos (ts.map fun t => (s.cm (.fin t)).fnr) J.1 s.pos.length with
    | error e => rfl
    | ok cf =>
      simp only
      cases applyRuleOfThreeO powNeg (ts.map fun t => (s.cm (.fin t)).fpr) J.2 s.neg.length with
      | error e => rfl
      | ok cg => rfl

/-- **C16 (`pointwise_band_ci` on every `ok` run).** Same hypotheses as `C16_script_wellformed`
(on the plain support): the call returns, the RNG is left in the state after exactly `nb_samples`
draws, both bands have one row per threshold, are NaN-free and inside `[0,1]` (all methods), and are
ordered for the quantile method with `0 ≤ alpha ≤ 1`. -/
theorem C16_script_pointwise_wellformed (u : Ulp) (s : Scores) (p : BootParams)
    (fnr fpr thr : Option (List ℚ)) (nb : Option ℕ) (powPos powNeg : ℚ) (st : RngState) (ts : List ℚ)
    (hsup : findSupportThresholds u s fnr fpr thr nb "fnr" = .ok ts)
    (hp : s.pos.length ≠ 0) (hn : s.neg.length ≠ 0)
    (hrun : c11p_Runnable s p.cfg) (_hsm : p.cfg.smoothing = false) (hnb : p.nbSamples ≠ 0)
    (hp0 : 0 ≤ powPos) (hp1 : powPos ≤ 1) (hn0 : 0 ≤ powNeg) (hn1 : powNeg ≤ 1)
    (hok : (pointwiseBandCIScript u s p fnr fpr thr nb powPos powNeg st).2.ok = true) :
    ∃ c, pointwiseBandCIScript u s p fnr fpr thr nb powPos powNeg st =
        (.ok c, sampleStates s p.cfg p.nbSamples st) ∧
      ScriptCurveOK ts c (p.method = .quantile ∧ 0 ≤ p.alpha ∧ p.alpha ≤ 1) := by
  have heq := c16s_pointwise_eq u s p fnr fpr thr nb powPos powNeg st ts hsup hp hn
  have hstate : (pointwiseBandCIScript u s p fnr fpr thr nb powPos powNeg st).2 =
      (scriptBootRun u s p (scriptTargetsF s p ts) (scriptTargetsG s p ts) st).2 := by
    rw [heq]
    rcases scriptBootRun u s p (scriptTargetsF s p ts) (scriptTargetsG s p ts) st with ⟨r, st1⟩
    cases r <;> rfl
  rw [hstate] at hok
  obtain ⟨est, reps, _, _, hrunEq, l1, l2, facts⟩ :=
    c16s_run_facts u s p _ _ st hp hn hrun hnb hok
  obtain ⟨bf, bg, hJ, lf, lg, gf, gg⟩ := c16s_jointBootCI_facts p.nrm p.pow15 p.method p.alpha
    est reps facts (p.method = .quantile ∧ 0 ≤ p.alpha ∧ p.alpha ≤ 1)
    (by
      rintro ⟨hm, ha0, ha1⟩ r hr
      obtain ⟨col, th, _, _, rfl⟩ := c16s_bootCIOf_rows p.nrm p.pow15 p.method p.alpha est reps facts r hr
      rw [hm]
      exact C13_ordered_quantile p.nrm p.pow15 col th p.alpha ha0 ha1)
  obtain ⟨c, hc⟩ := pointwise_total u s hp hn fnr fpr thr nb powPos powNeg
    (fun _ _ => jointBootCI p.nrm p.pow15 p.method p.alpha est reps)
  obtain ⟨hts, _, _, e1, e2, o1, o2⟩ := C16_pointwise_band u s fnr fpr thr nb powPos powNeg _ c hc
    bf bg hJ
  rw [hsup] at hts
  injection hts with hts
  have lf' : bf.length = ts.length := by rw [lf, l1]; simp [scriptTargetsG]
  have lg' : bg.length = ts.length := by rw [lg, l2]; simp [scriptTargetsF]
  have unF : ∀ r ∈ ruleOfThreeRows powPos s.pos.length (c.thresholds.map s.fnrQ) bf,
      (0 ≤ r.1 ∧ r.1 ≤ 1) ∧ (0 ≤ r.2 ∧ r.2 ≤ 1) := by
    intro r hr
    obtain ⟨pj, cj, hcj, rfl⟩ := mem_ruleOfThreeRows _ _ _ _ r hr
    exact (ruleOfThreeRow_wf powPos hp0 hp1 _ pj cj).2 (gf cj hcj).1
  have unG : ∀ r ∈ ruleOfThreeRows powNeg s.neg.length (c.thresholds.map s.fprQ) bg,
      (0 ≤ r.1 ∧ r.1 ≤ 1) ∧ (0 ≤ r.2 ∧ r.2 ≤ 1) := by
    intro r hr
    obtain ⟨pj, cj, hcj, rfl⟩ := mem_ruleOfThreeRows _ _ _ _ r hr
    exact (ruleOfThreeRow_wf powNeg hn0 hn1 _ pj cj).2 (gg cj hcj).1
  refine ⟨c, ?_, hts.symm, ⟨?_, ?_⟩, ⟨?_, ?_⟩, ⟨?_, ?_⟩, fun ho => ⟨?_, ?_⟩⟩
  · rw [heq, hrunEq]
    simp only [hc]
  · rw [e1]
    simp only [C16.shapeOK, List.length_map, length_ruleOfThreeRows, ← hts, lf', Nat.min_self,
      beq_self_eq_true]
  · rw [e2]
    simp only [C16.shapeOK, List.length_map, length_ruleOfThreeRows, ← hts, lg', Nat.min_self,
      beq_self_eq_true]
  · rw [e1]; exact c16_nanFreeOK_lift _
  · rw [e2]; exact c16_nanFreeOK_lift _
  · rw [e1]; exact c16_unitOK_lift _ unF
  · rw [e2]; exact c16_unitOK_lift _ unG
  · exact o1 hp0 hp1 (fun r hr => (gf r hr).2 ho)
  · exact o2 hn0 hn1 (fun r hr => (gg r hr).2 ho)

/-! ### the hypotheses cannot be dropped / are satisfiable -/

/-- **`nb_samples ≥ 1` is needed.** Without a single replicate every pointwise interval of the
quantile method is `(NaN, NaN)` (`np.nanquantile` of an empty column), whatever the estimate. -/
theorem c16s_no_samples_nan (nrm : Normal) (p15 : ℚ → ℚ) (al : ℚ) (est : JointVal) :
    jointBootCI nrm p15 .quantile al est [] =
      (est.1.map fun _ => (none, none), est.2.map fun _ => (none, none)) := by
  have hq : ∀ q : ℚ, quantileLinear [] q = none := by
    intro q
    simp [quantileLinear, sortQ]
  have hall : bootstrapCIOf nrm p15 .quantile (fun j => ([] : List JointVal).getD j est) jointFlat est
      ([] : List JointVal).length al = (jointFlat est).map fun _ => (none, none) := by
    unfold bootstrapCIOf
    apply List.ext_getElem
    · simp
    · intro k h1 h2
      simp only [List.getElem_map, List.getElem_range, bootstrapMetric, List.length_nil,
        List.range_zero, List.map_nil, column]
      cases (jointFlat est).getD k none <;> simp only [ciComponent, bootstrapCI, hq]
  simp only [jointBootCI, hall, jointFlat, List.map_append]
  refine Prod.ext ?_ ?_
  · exact List.take_left' (by simp)
  · exact List.drop_left' (by simp)

/-- parameters for the examples: 3 samples, quantile method, alpha = 1/20, exact arithmetic -/
def c16sParams (m : SamplingMethod) (byLabel : Bool) : BootParams :=
  ⟨⟨m, byLabel, false, none, fun r n => r * n⟩, 3, .quantile, 1 / 20, Normal.toy, fun x => x,
    fun x => x⟩

theorem c16Example_inv : Inv c16Example :=
  make_sorted _ _ _ _ _ _ (fun h => absurd h (by simp))

/-- **the hypotheses of `C16_script_wellformed` (and of its corollaries, `C16_script_state`,
`C16_script_requests`, `C16_script_identity`) are jointly satisfiable**: the example object of
SA/Theorems/C16.lean (ties, `score_class = neg`), replacement sampling (stratified or not; the same
holds for single-pass), three samples, the identity script: the support exists, the configuration
is runnable, and the run is `ok`. -/
theorem c16s_example_ok (b : Bool) :
    ∃ ts script, findSupportThresholdsCI Ulp.half c16Example none none none none rocCIExtraPoints
        "tar" = .ok ts ∧
      c11p_Runnable c16Example (c16sParams .replacement b).cfg ∧
      (c16sParams .replacement b).cfg.smoothing = false ∧ (c16sParams .replacement b).nbSamples ≠ 0 ∧
      (rocWithCIScript Ulp.half c16Example (c16sParams .replacement b) none none none none "tar"
        (1 / 2) (1 / 3) (RngState.init script)).2.ok = true ∧
      ∃ c, (rocWithCIScript Ulp.half c16Example (c16sParams .replacement b) none none none none "tar"
        (1 / 2) (1 / 3) (RngState.init script)).1 = .ok c := by
  have hsup := C16_total Ulp.half c16Example c16Example_pos c16Example_neg none none none none
    rocCIExtraPoints "tar"
    (by simp [C15.expectedLength, C15.optLen, c16Example, Scores.make, length_sortQ])
  simp only [XAxis.ofString] at hsup
  obtain ⟨ts, hts⟩ := hsup
  have hm : samplingMethod c16Example (c16sParams .replacement b).cfg = .replacement := by
    simp [samplingMethod, c16sParams]
  refine ⟨ts, (List.replicate 3 (identityScript c16Example b false)).flatten, hts, Or.inl hm, rfl,
    by simp [c16sParams], ?_⟩
  obtain ⟨eF, eG, st1, _, heq, hok1, _⟩ := C16_script_identity Ulp.half c16Example
    (c16sParams .replacement b) none none none none "tar" (1 / 2) (1 / 3)
    (RngState.init (List.replicate 3 (identityScript c16Example b false)).flatten) ts false []
    hts c16Example_pos c16Example_neg c16Example_inv (Or.inl ⟨hm, rfl⟩) rfl (by simp [c16sParams])
    rfl (by simp [RngState.init, c16sParams])
  rw [heq]
  refine ⟨hok1, ?_⟩
  obtain ⟨c, hc⟩ := C16_roc_total Ulp.half c16Example c16Example_pos c16Example_neg none none none
    none "tar" .tar rfl
    (by simp [C15.expectedLength, C15.optLen, c16Example, Scores.make, length_sortQ]) (1 / 2) (1 / 3)
    (identityBoot (eF.map some) (eG.map some))
  exact ⟨c, hc⟩

/-- pow bounds, alpha bounds and lawful oracles of the examples -/
example : (0 : ℚ) ≤ 1 / 2 ∧ (1 / 2 : ℚ) ≤ 1 ∧ (0 : ℚ) ≤ 1 / 3 ∧ (1 / 3 : ℚ) ≤ 1 ∧
    (0 : ℚ) < (c16sParams .replacement true).alpha ∧ (c16sParams .replacement true).alpha < 1 ∧
    (c16sParams .replacement true).nrm.Lawful := by
  refine ⟨by norm_num, by norm_num, by norm_num, by norm_num, ?_, ?_, Normal.toy_lawful⟩ <;>
    norm_num [c16sParams]

/-- the hypotheses of `C16_script_samples`: three draws on the identity script are `ok` -/
example : c11p_Runnable c16Example (c16sParams .replacement true).cfg ∧
    (drawSamples c16Example (c16sParams .replacement true).cfg 3
      (RngState.init (List.replicate 3 (identityScript c16Example true false)).flatten)).2.ok = true := by
  have hm : samplingMethod c16Example (c16sParams .replacement true).cfg = .replacement := by
    simp [samplingMethod, c16sParams]
  refine ⟨Or.inl hm, ?_⟩
  exact (c16s_drawMapped_identity c16Example (c16sParams .replacement true).cfg (fun smp => .ok smp)
    c16Example rfl false [] c16Example_inv (Or.inl ⟨hm, rfl⟩) rfl 3 _ rfl
    (by simp [RngState.init, c16sParams])).2.1

/-- the hypotheses of `C16_script_pointwise_wellformed` / `_refines` are jointly satisfiable: the
plain support of the example exists and the run on the identity script is `ok` -/
example : ∃ ts script, findSupportThresholds Ulp.half c16Example none none none none "fnr" = .ok ts ∧
    c11p_Runnable c16Example (c16sParams .replacement true).cfg ∧
    (pointwiseBandCIScript Ulp.half c16Example (c16sParams .replacement true) none none none none
      (1 / 2) (1 / 3) (RngState.init script)).2.ok = true := by
  have hsup := C15_total Ulp.half c16Example c16Example_pos c16Example_neg none none none none "fnr"
  simp only [XAxis.ofString] at hsup
  obtain ⟨ts, hts⟩ := hsup
  have hm : samplingMethod c16Example (c16sParams .replacement true).cfg = .replacement := by
    simp [samplingMethod, c16sParams]
  refine ⟨ts, (List.replicate 3 (identityScript c16Example true false)).flatten, hts, Or.inl hm, ?_⟩
  obtain ⟨eF, eG, st1, _, hrunEq, hok1, _⟩ := c16s_bootRun_identity Ulp.half c16Example
    (c16sParams .replacement true) (scriptTargetsF c16Example (c16sParams .replacement true) ts)
    (scriptTargetsG c16Example (c16sParams .replacement true) ts)
    (RngState.init (List.replicate 3 (identityScript c16Example true false)).flatten) false []
    c16Example_pos c16Example_neg c16Example_inv (Or.inl ⟨hm, rfl⟩) rfl (by simp [c16sParams]) rfl
    (by simp [RngState.init, c16sParams])
  rw [c16s_pointwise_eq Ulp.half c16Example _ none none none none (1 / 2) (1 / 3) _ ts hts
    c16Example_pos c16Example_neg, hrunEq]
  exact hok1

/-- the hypotheses of `c16s_sample_wellformed` / `c16s_sample_consumed` / `c16s_sample_ok_mono`: a
sample is returned and the state is `ok` (one draw on the identity script, started in the middle
of a longer script) -/
example : ∃ st out, st.trace ≠ [] ∧
    (bootstrapSample c16Example (c16sParams .replacement true).cfg st).1 = .ok out ∧
    (bootstrapSample c16Example (c16sParams .replacement true).cfg st).2.ok = true := by
  have hm : samplingMethod c16Example (c16sParams .replacement true).cfg = .replacement := by
    simp [samplingMethod, c16sParams]
  refine ⟨⟨identityScript c16Example true false, [(.normal 0, [])], true⟩, c16Example, by simp, ?_⟩
  obtain ⟨h1, h2, _⟩ := c16s_sample_identity c16Example (c16sParams .replacement true).cfg false
    ⟨identityScript c16Example true false, [(.normal 0, [])], true⟩ [] c16Example_inv
    (Or.inl ⟨hm, rfl⟩) rfl rfl (by simp [c16sParams])
  exact ⟨h1, h2⟩

/-- the hypotheses of `c16s_run_facts` (hence `RepsFacts`, the hypothesis of
`c16s_jointBootCI_facts` / `c16s_bootCIOf_rows`) are satisfiable: the identity run is `ok` -/
example : ∃ (fT gT : List ℚ) (st : RngState),
    (scriptBootRun Ulp.half c16Example (c16sParams .replacement true) fT gT st).2.ok = true ∧
    ∃ est reps, RepsFacts est reps := by
  have hm : samplingMethod c16Example (c16sParams .replacement true).cfg = .replacement := by
    simp [samplingMethod, c16sParams]
  refine ⟨[1 / 4], [1 / 2],
    RngState.init (List.replicate 3 (identityScript c16Example true false)).flatten, ?_⟩
  obtain ⟨eF, eG, st1, _, hrunEq, hok1, _⟩ := c16s_bootRun_identity Ulp.half c16Example
    (c16sParams .replacement true) [1 / 4] [1 / 2]
    (RngState.init (List.replicate 3 (identityScript c16Example true false)).flatten) false []
    c16Example_pos c16Example_neg c16Example_inv (Or.inl ⟨hm, rfl⟩) rfl (by simp [c16sParams]) rfl
    (by simp [RngState.init, c16sParams])
  have hok : (scriptBootRun Ulp.half c16Example (c16sParams .replacement true) [1 / 4] [1 / 2]
      (RngState.init (List.replicate 3 (identityScript c16Example true false)).flatten)).2.ok = true := by
    rw [hrunEq]; exact hok1
  refine ⟨hok, ?_⟩
  obtain ⟨est, reps, _, _, _, _, _, facts⟩ := c16s_run_facts Ulp.half c16Example
    (c16sParams .replacement true) [1 / 4] [1 / 2] _ c16Example_pos c16Example_neg (Or.inl hm)
    (by simp [c16sParams]) hok
  exact ⟨est, reps, facts⟩

end SA
