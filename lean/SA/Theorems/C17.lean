/-
C17 — general threshold search returns true solutions of the interpolated metric.

`x[j]` is written `x.getD j 0` (every index below is in range).
-/
import SA.Proofs.InvertPL
import SA.Proofs.Bisect
import SA.Theorems.C01

namespace SA
open Spec.C17

/-- The documented precondition of `invert_pl_function`: `x` non-decreasing, `y` of the same
length, duplicates in `x` carry equal `y`. -/
structure PLInput (x y : List ℚ) : Prop where
  sorted : x.Pairwise (· ≤ ·)
  len : x.length = y.length
  dup : ∀ j, j + 1 < x.length → x.getD j 0 = x.getD (j + 1) 0 → y.getD j 0 = y.getD (j + 1) 0

/-- the piecewise-linear interpolant on segment `j` -/
def interpSeg (x y : List ℚ) (j : ℕ) (z : ℚ) : ℚ :=
  y.getD j 0 + (z - x.getD j 0) * (y.getD (j + 1) 0 - y.getD j 0) / (x.getD (j + 1) 0 - x.getD j 0)

/-- `z` is a genuine solution of `f(z) = t` for the interpolant `f` of the samples: either it lies
on a non-degenerate segment whose interpolant takes the value `t` there, or it is a sample point
whose value is `t`. -/
def IsSolution (x y : List ℚ) (t z : ℚ) : Prop :=
  (∃ j, j + 1 < x.length ∧ x.getD j 0 < x.getD (j + 1) 0 ∧ x.getD j 0 ≤ z ∧ z ≤ x.getD (j + 1) 0 ∧
      interpSeg x y j z = t) ∨
  (∃ i, i < x.length ∧ z = x.getD i 0 ∧ y.getD i 0 = t)

/-- a crossing segment is non-degenerate: `y[j] ≠ y[j+1]`, hence `x[j] < x[j+1]` -/
theorem crossing_strict {x y : List ℚ} (h : PLInput x y) (t : ℚ) (j : ℕ) (hj : j ∈ crossIdx y t) :
    x.getD j 0 < x.getD (j + 1) 0 := by
  obtain ⟨hj1, hc⟩ := (mem_crossIdx y t j).mp hj
  have hjx : j + 1 < x.length := by rw [h.len]; exact hj1
  have hne := (crossing_la _ _ _ hc).1
  have hle := getD_mono x h.sorted j (j + 1) (by omega) hjx
  rcases lt_or_eq_of_le hle with hlt | heq
  · exact hlt
  · exact absurd (h.dup j hjx heq) hne

/-- everything about the point computed on one crossing segment -/
theorem segPoint_spec {x y : List ℚ} (h : PLInput x y) (t : ℚ) (j : ℕ) (hj : j ∈ crossIdx y t) :
    x.getD j 0 ≤ segPoint x y t j ∧ segPoint x y t j < x.getD (j + 1) 0 ∧
    (segPoint x y t j - x.getD j 0) * (y.getD (j + 1) 0 - y.getD j 0)
      = (t - y.getD j 0) * (x.getD (j + 1) 0 - x.getD j 0) ∧
    interpSeg x y j (segPoint x y t j) = t := by
  have hx := crossing_strict h t j hj
  obtain ⟨_, hc⟩ := (mem_crossIdx y t j).mp hj
  obtain ⟨s1, s2, s3⟩ := seg_spec _ _ _ _ t hx hc
  refine ⟨s1, s2, s3, ?_⟩
  have hdx : x.getD (j + 1) 0 - x.getD j 0 ≠ 0 := by intro e; linarith
  unfold interpSeg
  have s3' : (segPoint x y t j - x.getD j 0) * (y.getD (j + 1) 0 - y.getD j 0)
      = (t - y.getD j 0) * (x.getD (j + 1) 0 - x.getD j 0) := s3
  rw [s3', mul_div_assoc, div_self hdx]; ring

theorem mem_invertPL_crossing {x y : List ℚ} {t z : ℚ} (hc : crossIdx y t ≠ [])
    (hz : z ∈ invertPL x y t) : ∃ j, j ∈ crossIdx y t ∧ z = segPoint x y t j := by
  unfold invertPL at hz
  have : (crossIdx y t).isEmpty = false := by
    cases hh : crossIdx y t with
    | nil => exact absurd hh hc
    | cons _ _ => rfl
  simp only [this, Bool.false_eq_true, if_false, List.mem_map] at hz
  obtain ⟨j, hj, rfl⟩ := hz
  exact ⟨j, hj, rfl⟩

theorem invertPL_fallback_eq {x y : List ℚ} {t : ℚ} (hc : crossIdx y t = []) :
    invertPL x y t = [x.getD (argminAbs y t) 0] := by
  unfold invertPL; simp [hc]

/-- **C17 (solves).** If some segment crosses the target, every returned point `z` comes from a
crossing segment `j`; that segment has `x[j] < x[j+1]`, `z` lies in `[x[j], x[j+1])`, and the
interpolant of segment `j` at `z` equals the target
(`y[j] + (z - x[j]) * (y[j+1] - y[j]) / (x[j+1] - x[j]) = t`). -/
theorem C17_solves {x y : List ℚ} (h : PLInput x y) (t z : ℚ) (hc : crossIdx y t ≠ [])
    (hz : z ∈ invertPL x y t) :
    ∃ j, j + 1 < x.length ∧ isCrossing (y.getD j 0) (y.getD (j + 1) 0) t = true ∧
      z = segPoint x y t j ∧ x.getD j 0 < x.getD (j + 1) 0 ∧ x.getD j 0 ≤ z ∧ z < x.getD (j + 1) 0 ∧
      (z - x.getD j 0) * (y.getD (j + 1) 0 - y.getD j 0)
        = (t - y.getD j 0) * (x.getD (j + 1) 0 - x.getD j 0) ∧
      interpSeg x y j z = t := by
  obtain ⟨j, hj, rfl⟩ := mem_invertPL_crossing hc hz
  obtain ⟨hj1, hcr⟩ := (mem_crossIdx y t j).mp hj
  obtain ⟨s1, s2, s3, s4⟩ := segPoint_spec h t j hj
  exact ⟨j, by rw [h.len]; exact hj1, hcr, rfl, crossing_strict h t j hj, s1, s2, s3, s4⟩

/-- **C17 (fallback).** If no segment crosses the target, exactly one point is returned; it is a
sample point `x[i]` whose value is closest to the target, and `i` is the first such index
(`np.argmin`). -/
theorem C17_fallback (x y : List ℚ) (t : ℚ) (hy : y ≠ []) (hc : crossIdx y t = []) :
    ∃ i, i < y.length ∧ invertPL x y t = [x.getD i 0] ∧
      (∀ k, k < y.length → absPL (y.getD i 0 - t) ≤ absPL (y.getD k 0 - t)) ∧
      (∀ k, k < i → absPL (y.getD i 0 - t) < absPL (y.getD k 0 - t)) := by
  obtain ⟨h1, h2, h3⟩ := argminAbs_spec y t hy
  exact ⟨argminAbs y t, h1, invertPL_fallback_eq hc, h2, h3⟩

/-- **C17 (in range).** Every returned point lies in `[x[0], x[n-1]]`. -/
theorem C17_in_range {x y : List ℚ} (h : PLInput x y) (t z : ℚ) (hy : y ≠ [])
    (hz : z ∈ invertPL x y t) : x.getD 0 0 ≤ z ∧ z ≤ x.getD (x.length - 1) 0 := by
  have hn : 0 < x.length := by rw [h.len]; exact List.length_pos_iff.mpr hy
  by_cases hc : crossIdx y t = []
  · obtain ⟨i, hi, he, _⟩ := C17_fallback x y t hy hc
    rw [he, List.mem_singleton] at hz
    subst hz
    rw [← h.len] at hi
    exact ⟨getD_mono x h.sorted 0 i (by omega) hi, getD_mono x h.sorted i _ (by omega) (by omega)⟩
  · obtain ⟨j, hj, _, _, _, h1, h2, _⟩ := C17_solves h t z hc hz
    have a := getD_mono x h.sorted 0 j (by omega) (by omega)
    have b := getD_mono x h.sorted (j + 1) (x.length - 1) (by omega) (by omega)
    exact ⟨le_trans a h1, le_trans h2.le b⟩

/-- **C17 (strictly increasing).** Points from segments `j < k` satisfy
`z_j < x[j+1] ≤ x[k] ≤ z_k`. -/
theorem C17_strictly_increasing {x y : List ℚ} (h : PLInput x y) (t : ℚ) :
    (invertPL x y t).Pairwise (· < ·) := by
  by_cases hc : crossIdx y t = []
  · rw [invertPL_fallback_eq hc]; exact List.pairwise_singleton _ _
  · have e : invertPL x y t = (crossIdx y t).map (segPoint x y t) := by
      unfold invertPL
      cases hh : crossIdx y t with
      | nil => exact absurd hh hc
      | cons _ _ => rfl
    rw [e, List.pairwise_map]
    refine List.Pairwise.imp_of_mem ?_ (crossIdx_pairwise y t)
    intro j k hj hk hjk
    obtain ⟨_, a2, _⟩ := segPoint_spec h t j hj
    obtain ⟨b1, _⟩ := segPoint_spec h t k hk
    obtain ⟨hk1, _⟩ := (mem_crossIdx y t k).mp hk
    have := getD_mono x h.sorted (j + 1) k (by omega) (by rw [h.len]; omega)
    linarith

/-- the result is never empty -/
theorem C17_nonempty (x y : List ℚ) (t : ℚ) : invertPL x y t ≠ [] := by
  by_cases hc : crossIdx y t = []
  · rw [invertPL_fallback_eq hc]; simp
  · unfold invertPL
    cases hh : crossIdx y t with
    | nil => exact absurd hh hc
    | cons _ _ => simp

/-- **C17 (cross or touch ⇒ genuine solutions).** If some segment crosses the target or some
sample equals it, every returned point is a genuine solution: a crossing point solves the
interpolation equation on its segment, and without a crossing the fallback sample has `y[i] = t`.
(Touch at the last sample, plateau at the target, "V" touching from above: see the examples.) -/
theorem C17_touch {x y : List ℚ} (h : PLInput x y) (t : ℚ)
    (hct : crossIdx y t ≠ [] ∨ ∃ k, k < y.length ∧ y.getD k 0 = t) :
    ∀ z, z ∈ invertPL x y t → IsSolution x y t z := by
  intro z hz
  by_cases hc : crossIdx y t = []
  · rcases hct with hct | ⟨k, hk, hkt⟩
    · exact absurd hc hct
    · have hy : y ≠ [] := by intro e; rw [e] at hk; simp at hk
      obtain ⟨i, hi, he, hmin, _⟩ := C17_fallback x y t hy hc
      rw [he, List.mem_singleton] at hz
      have h0 := hmin k hk
      rw [hkt, sub_self, absR_zero] at h0
      have := absR_eq_zero h0
      exact Or.inr ⟨i, by rw [h.len]; exact hi, hz, by linarith⟩
  · obtain ⟨j, hj, _, _, hx, h1, h2, _, h4⟩ := C17_solves h t z hc hz
    exact Or.inl ⟨j, hj, hx, h1, h2.le, h4⟩

/-- **C17 (length).** One list per target, each the single-target inversion; the only error is the
empty sample vector (`np.argmin` raises `ValueError`). -/
theorem C17_length (x y ts : List ℚ) :
    (y ≠ [] → invertPLAll x y ts = .ok (ts.map (invertPL x y)) ∧
      (ts.map (invertPL x y)).length = ts.length) ∧
    (y = [] → invertPLAll x y ts = .error .valueError) := by
  unfold invertPLAll
  constructor
  · intro hy
    have : y.isEmpty = false := by
      cases y with
      | nil => exact absurd rfl hy
      | cons _ _ => rfl
    simp [this]
  · intro hy; subst hy; rfl

/-! ### the executable spec predicates hold on the model output with `eps = 0` -/

theorem increasingOK_of_pairwise (l : List ℚ) (h : l.Pairwise (· < ·)) : increasingOK l = true := by
  induction l with
  | nil => rfl
  | cons a r ih =>
    cases r with
    | nil => rfl
    | cons b r' =>
      rw [List.pairwise_cons] at h
      simp only [increasingOK, Bool.and_eq_true, decide_eq_true_eq]
      exact ⟨h.1 b (by simp), ih h.2⟩

theorem C17_spec_increasing {x y : List ℚ} (h : PLInput x y) (t : ℚ) :
    increasingOK (invertPL x y t) = true :=
  increasingOK_of_pairwise _ (C17_strictly_increasing h t)

theorem C17_spec_in_range {x y : List ℚ} (h : PLInput x y) (t : ℚ) (hy : y ≠ []) :
    inRangeOK x (invertPL x y t) 0 = true := by
  unfold inRangeOK
  rw [List.all_eq_true]
  intro z hz
  obtain ⟨a, b⟩ := C17_in_range h t z hy hz
  simp only [Bool.and_eq_true, decide_eq_true_eq, sub_zero, add_zero]
  exact ⟨a, b⟩

theorem C17_spec_fallback (x y : List ℚ) (t : ℚ) (hy : y ≠ []) (hc : crossIdx y t = []) :
    fallbackOK x y t (invertPL x y t) 0 = true := by
  obtain ⟨i, hi, he, hmin, _⟩ := C17_fallback x y t hy hc
  rw [he]
  simp only [fallbackOK, List.any_eq_true, List.mem_range, Bool.and_eq_true, decide_eq_true_eq,
    List.all_eq_true, add_zero]
  exact ⟨i, hi, rfl, fun k hk => hmin k hk⟩

/-- a genuine solution passes `solvesAt`/`solvesOK` exactly -/
theorem solvesOK_of_solution {x y : List ℚ} (h : PLInput x y) (t : ℚ) (zs : List ℚ)
    (hz : ∀ z, z ∈ zs → IsSolution x y t z) : solvesOK x y t zs 0 = true := by
  unfold solvesOK
  rw [List.all_eq_true]
  intro z hzm
  rw [Bool.or_eq_true]
  rcases hz z hzm with ⟨j, hj, hx, h1, h2, h3⟩ | ⟨i, hi, hzi, hyi⟩
  · left
    rw [List.any_eq_true]
    refine ⟨j, List.mem_range.mpr (by omega), ?_⟩
    have hne : x.getD j 0 ≠ x.getD (j + 1) 0 := ne_of_lt hx
    have hdx : x.getD (j + 1) 0 - x.getD j 0 ≠ 0 := by intro e; apply hne; linarith
    simp only [solvesAt, Bool.and_eq_true, decide_eq_true_eq, sub_zero, add_zero, hne, if_false,
      zero_mul]
    refine ⟨⟨h1, h2⟩, ?_⟩
    unfold interpSeg at h3
    have : (z - x.getD j 0) * (y.getD (j + 1) 0 - y.getD j 0)
        = (t - y.getD j 0) * (x.getD (j + 1) 0 - x.getD j 0) := by
      have e : (z - x.getD j 0) * (y.getD (j + 1) 0 - y.getD j 0) / (x.getD (j + 1) 0 - x.getD j 0)
          = t - y.getD j 0 := by linarith
      rw [div_eq_iff hdx] at e
      exact e
    rw [this, sub_self, absR_zero]
  · subst hzi
    by_cases hn1 : x.length = 1
    · right
      have : i = 0 := by omega
      subst this
      simp only [hn1, beq_self_eq_true, Bool.true_and, Bool.and_eq_true, decide_eq_true_eq, hyi,
        sub_self, absR_zero, le_refl, and_self]
    · left
      rw [List.any_eq_true]
      by_cases hlast : i + 1 < x.length
      · refine ⟨i, List.mem_range.mpr (by omega), ?_⟩
        simp only [solvesAt, Bool.and_eq_true, decide_eq_true_eq, sub_zero, add_zero, zero_mul]
        refine ⟨⟨le_refl _, getD_mono x h.sorted i (i + 1) (by omega) hlast⟩, ?_⟩
        by_cases he : x.getD i 0 = x.getD (i + 1) 0
        · simp only [he, if_true, decide_eq_true_eq, hyi, sub_self, absR_zero, le_refl]
        · simp only [he, if_false, decide_eq_true_eq, hyi, sub_self, zero_mul, absR_zero, le_refl]
      · obtain ⟨m, rfl⟩ : ∃ m, i = m + 1 := ⟨i - 1, by omega⟩
        refine ⟨m, List.mem_range.mpr (by omega), ?_⟩
        simp only [solvesAt, Bool.and_eq_true, decide_eq_true_eq, sub_zero, add_zero, zero_mul]
        refine ⟨⟨getD_mono x h.sorted m (m + 1) (by omega) hi, le_refl _⟩, ?_⟩
        by_cases he : x.getD m 0 = x.getD (m + 1) 0
        · have := h.dup m hi he
          simp only [he, if_true, decide_eq_true_eq, this, hyi, sub_self, absR_zero, le_refl]
        · simp only [he, if_false, decide_eq_true_eq, hyi]
          have : (x.getD (m + 1) 0 - x.getD m 0) * (t - y.getD m 0)
              - (t - y.getD m 0) * (x.getD (m + 1) 0 - x.getD m 0) = 0 := by ring
          rw [this, absR_zero]

theorem C17_spec_solves {x y : List ℚ} (h : PLInput x y) (t : ℚ)
    (hct : crossIdx y t ≠ [] ∨ ∃ k, k < y.length ∧ y.getD k 0 = t) :
    solvesOK x y t (invertPL x y t) 0 = true :=
  solvesOK_of_solution h t _ (C17_touch h t hct)

/-- a strict straddle is a crossing in the code's sense -/
theorem isCrossing_of_straddles (a b t : ℚ) (h : straddles a b t = true) :
    isCrossing a b t = true := by
  simp only [straddles, isCrossing, Bool.or_eq_true, Bool.and_eq_true, decide_eq_true_eq,
    gt_iff_lt, ge_iff_le] at *
  rcases h with ⟨h1, h2⟩ | ⟨h1, h2⟩
  · exact Or.inl ⟨h1.le, h2⟩
  · exact Or.inr ⟨h2.le, h1⟩

/-- "cross or touch" in the property's sense gives a crossing segment or an exact touch -/
theorem crossOrTouch_true {y : List ℚ} {t : ℚ} (h : crossOrTouch y t = true) :
    crossIdx y t ≠ [] ∨ ∃ k, k < y.length ∧ y.getD k 0 = t := by
  unfold crossOrTouch at h
  rw [Bool.or_eq_true] at h
  rcases h with h | h
  · right
    rw [List.any_eq_true] at h
    obtain ⟨v, hv, hvt⟩ := h
    obtain ⟨k, hk, rfl⟩ := List.getElem_of_mem hv
    exact ⟨k, hk, by rw [getD_eq' y k hk]; simpa using hvt⟩
  · left
    rw [List.any_eq_true] at h
    obtain ⟨j, hj, hs⟩ := h
    rw [List.mem_range] at hj
    have : j ∈ crossIdx y t :=
      (mem_crossIdx y t j).mpr ⟨by omega, isCrossing_of_straddles _ _ _ hs⟩
    intro e; rw [e] at this; simp at this

/-- neither crossing nor touching: the code finds no crossing segment -/
theorem crossOrTouch_false {y : List ℚ} {t : ℚ} (h : crossOrTouch y t = false) :
    crossIdx y t = [] := by
  unfold crossOrTouch at h
  rw [Bool.or_eq_false_iff] at h
  obtain ⟨h1, h2⟩ := h
  rw [List.eq_nil_iff_forall_not_mem]
  intro j hj
  obtain ⟨hj1, hc⟩ := (mem_crossIdx y t j).mp hj
  -- a crossing is a strict straddle or a touch at y[j]
  by_cases ht : y.getD j 0 = t
  · have : y.any (fun v => decide (v = t)) = true := by
      rw [List.any_eq_true]
      exact ⟨y.getD j 0, by rw [getD_eq' y j (by omega)]; exact List.getElem_mem _, by simpa using ht⟩
    rw [this] at h1; exact absurd h1 (by simp)
  · have : (List.range (y.length - 1)).any
        (fun j => straddles (y.getD j 0) (y.getD (j + 1) 0) t) = true := by
      rw [List.any_eq_true]
      refine ⟨j, List.mem_range.mpr (by omega), ?_⟩
      simp only [straddles, isCrossing, Bool.or_eq_true, Bool.and_eq_true, decide_eq_true_eq,
        gt_iff_lt, ge_iff_le] at *
      rcases hc with ⟨c1, c2⟩ | ⟨c1, c2⟩
      · exact Or.inl ⟨lt_of_le_of_ne c1 ht, c2⟩
      · exact Or.inr ⟨c2, lt_of_le_of_ne c1 (Ne.symm ht)⟩
    rw [this] at h2; exact absurd h2 (by simp)

/-- **C17 (otherwise).** If the samples neither cross nor touch the target, all sample values lie
strictly on one side of it — the interpolant (whose values lie between adjacent sample values) has
no solution at all, and the closest sample of `C17_fallback` is what is returned. -/
theorem C17_no_solution {y : List ℚ} {t : ℚ} (h : crossOrTouch y t = false) :
    (∀ k, k < y.length → y.getD k 0 < t) ∨ (∀ k, k < y.length → t < y.getD k 0) := by
  unfold crossOrTouch at h
  rw [Bool.or_eq_false_iff] at h
  obtain ⟨h1, h2⟩ := h
  have ht : ∀ k, k < y.length → y.getD k 0 ≠ t := by
    intro k hk e
    have : y.any (fun v => decide (v = t)) = true := by
      rw [List.any_eq_true]
      exact ⟨y.getD k 0, by rw [getD_eq' y k hk]; exact List.getElem_mem _, by simpa using e⟩
    rw [this] at h1; exact absurd h1 (by simp)
  have hs : ∀ j, j + 1 < y.length → straddles (y.getD j 0) (y.getD (j + 1) 0) t = true → False := by
    intro j hj hst
    have : (List.range (y.length - 1)).any
        (fun j => straddles (y.getD j 0) (y.getD (j + 1) 0) t) = true := by
      rw [List.any_eq_true]; exact ⟨j, List.mem_range.mpr (by omega), hst⟩
    rw [this] at h2; exact absurd h2 (by simp)
  by_cases hn : y.length = 0
  · left; intro k hk; omega
  · rcases lt_or_gt_of_ne (ht 0 (by omega)) with h0 | h0
    · left
      intro k hk
      induction k with
      | zero => exact h0
      | succ k ih =>
        have a := ih (by omega)
        rcases lt_or_gt_of_ne (ht (k + 1) hk) with c | c
        · exact c
        · exfalso; apply hs k hk
          simp only [straddles, Bool.or_eq_true, Bool.and_eq_true, decide_eq_true_eq]
          exact Or.inl ⟨a, c⟩
    · right
      intro k hk
      induction k with
      | zero => exact h0
      | succ k ih =>
        have a := ih (by omega)
        rcases lt_or_gt_of_ne (ht (k + 1) hk) with c | c
        · exfalso; apply hs k hk
          simp only [straddles, Bool.or_eq_true, Bool.and_eq_true, decide_eq_true_eq]
          exact Or.inr ⟨c, a⟩
        · exact c

/-- the code's crossing test is exactly "strict straddle, or touch at the left end only" -/
theorem segSolves_eq_isCrossing (a b t : ℚ) : segSolves a b t = isCrossing a b t := by
  rw [Bool.eq_iff_iff]
  simp only [segSolves, straddles, isCrossing, Bool.or_eq_true, Bool.and_eq_true, decide_eq_true_eq,
    Bool.not_eq_true', decide_eq_false_iff_not, gt_iff_lt, ge_iff_le]
  constructor
  · rintro ((⟨h1, h2⟩ | ⟨h1, h2⟩) | ⟨h1, h2⟩)
    · exact Or.inl ⟨h1.le, h2⟩
    · exact Or.inr ⟨h2.le, h1⟩
    · rcases lt_or_gt_of_ne h2 with h | h
      · exact Or.inr ⟨h1.ge, h⟩
      · exact Or.inl ⟨h1.le, h⟩
  · rintro (⟨h1, h2⟩ | ⟨h1, h2⟩)
    · rcases lt_or_eq_of_le h1 with h | h
      · exact Or.inl (Or.inl ⟨h, h2⟩)
      · exact Or.inr ⟨h, ne_of_gt h2⟩
    · rcases lt_or_eq_of_le h1 with h | h
      · exact Or.inl (Or.inr ⟨h2, h⟩)
      · exact Or.inr ⟨h.symm, ne_of_lt h2⟩

theorem zip_map_all (js : List ℕ) (f : ℕ → ℚ) (p : ℕ × ℚ → Bool)
    (h : ∀ j, j ∈ js → p (j, f j) = true) : (js.zip (js.map f)).all p = true := by
  induction js with
  | nil => rfl
  | cons a r ih =>
    simp only [List.map_cons, List.zip_cons_cons, List.all_cons, Bool.and_eq_true]
    exact ⟨h a (by simp), ih (fun j hj => h j (by simp [hj]))⟩

/-- **C17 (complete).** Every segment whose end values strictly straddle the target, or whose left
end value equals it while the right one does not, contributes exactly one point, in segment order,
lying in `[x[j], x[j+1])`. -/
theorem C17_spec_complete {x y : List ℚ} (h : PLInput x y) (t : ℚ) :
    completeOK x y t (invertPL x y t) 0 = true := by
  unfold completeOK
  have e : ((List.range (y.length - 1)).filter fun j =>
      segSolves (y.getD j 0) (y.getD (j + 1) 0) t) = crossIdx y t := by
    unfold crossIdx
    apply List.filter_congr
    intro j _
    exact segSolves_eq_isCrossing _ _ _
  simp only [e]
  by_cases hc : crossIdx y t = []
  · simp [hc]
  · have e2 : invertPL x y t = (crossIdx y t).map (segPoint x y t) := by
      unfold invertPL
      cases hh : crossIdx y t with
      | nil => exact absurd hh hc
      | cons _ _ => rfl
    rw [e2, Bool.or_eq_true]
    right
    rw [Bool.and_eq_true]
    refine ⟨by simp, ?_⟩
    apply zip_map_all
    intro j hj
    obtain ⟨a, b, _⟩ := segPoint_spec h t j hj
    simp only [Bool.and_eq_true, decide_eq_true_eq, sub_zero, add_zero]
    exact ⟨a, b.le⟩

/-- **C17 (spec).** The whole property as evaluated by the driver holds on the model output with
`eps = 0`: non-empty, strictly increasing, in range, genuine solutions when the samples cross or
touch the target and the closest sample otherwise. -/
theorem C17_spec {x y : List ℚ} (h : PLInput x y) (t : ℚ) (hy : y ≠ []) :
    resultOK x y t (invertPL x y t) 0 = true := by
  unfold resultOK
  have hne : (invertPL x y t).isEmpty = false := by
    have := C17_nonempty x y t
    cases hh : invertPL x y t with
    | nil => exact absurd hh this
    | cons _ _ => rfl
  rw [hne, C17_spec_increasing h t, C17_spec_in_range h t hy, C17_spec_complete h t]
  simp only [Bool.not_false, Bool.and_self, Bool.true_and]
  by_cases hct : crossOrTouch y t = true
  · rw [if_pos hct]; exact C17_spec_solves h t (crossOrTouch_true hct)
  · rw [if_neg hct]
    exact C17_spec_fallback x y t hy (crossOrTouch_false (by simpa using hct))

/-! ### `threshold_at_metric` -/

/-- NaN-free metric values: the NaN-aware inversion is the plain one -/
theorem invertPLO_some (x y : List ℚ) (t : ℚ) : invertPLO x (y.map some) t = invertPL x y t := by
  have : allSomePL (y.map some) = some y := by
    induction y with
    | nil => rfl
    | cons v r ih => simp [allSomePL, ih]
  unfold invertPLO; rw [this]

/-- `np.linspace(a, b, k)` for `k ≥ 2` and `a < b`: `k` strictly increasing points from `a` to `b` -/
theorem linspace_spec (a b : ℚ) (k : ℕ) (hab : a < b) :
    (linspace a b (k + 2)).length = k + 2 ∧ (linspace a b (k + 2)).head? = some a ∧
    (linspace a b (k + 2)).getLast? = some b ∧ (linspace a b (k + 2)).Pairwise (· < ·) := by
  have hk : (0 : ℚ) < ((k + 1 : ℕ) : ℚ) := by exact_mod_cast Nat.succ_pos k
  have hstep : 0 < (b - a) / ((k + 1 : ℕ) : ℚ) := div_pos (by linarith) hk
  unfold linspace
  refine ⟨by simp, ?_, by simp, ?_⟩
  · simp [List.range_succ_eq_map]
  · rw [List.pairwise_append]
    refine ⟨?_, List.pairwise_singleton _ _, ?_⟩
    · rw [List.pairwise_map]
      refine List.Pairwise.imp ?_ List.pairwise_lt_range
      intro i j hij
      have : (i : ℚ) < (j : ℚ) := by exact_mod_cast hij
      have := mul_lt_mul_of_pos_right this hstep
      linarith
    · intro z hz w hw
      rw [List.mem_singleton] at hw; rw [hw]
      rw [List.mem_map] at hz
      obtain ⟨i, hi, rfl⟩ := hz
      rw [List.mem_range] at hi
      have h1 : (i : ℚ) < ((k + 1 : ℕ) : ℚ) := by exact_mod_cast hi
      have h2 := mul_lt_mul_of_pos_right h1 hstep
      have h3 : ((k + 1 : ℕ) : ℚ) * ((b - a) / ((k + 1 : ℕ) : ℚ)) = b - a :=
        mul_div_cancel₀ _ (ne_of_gt hk)
      linarith

/-- **C17 (evaluation points).** `points=None`: all scores, sorted, `ValueError` iff fewer than two;
`points=k`: `linspace(min, max, k)`, `ValueError` iff `min ≥ max` (in particular when there is no
score at all); an array: the array itself.  In the first two cases the points are
non-decreasing. -/
theorem C17_points (s : Scores) :
    (s.thresholdAtMetricPoints .none =
      if s.pos.length + s.neg.length < 2 then .error .valueError
      else .ok (sortQ (s.pos ++ s.neg))) ∧
    (∀ k a b, s.minScore = some a → s.maxScore = some b →
      s.thresholdAtMetricPoints (.int k) =
        if a ≥ b then .error .valueError else .ok (linspace a b k)) ∧
    (∀ k, s.minScore = none → s.thresholdAtMetricPoints (.int k) = .error .valueError) ∧
    (∀ p, s.thresholdAtMetricPoints (.arr p) = .ok p) ∧
    (∀ pts, s.thresholdAtMetricPoints .none = .ok pts → pts.Pairwise (· ≤ ·)) ∧
    (∀ k pts, s.thresholdAtMetricPoints (.int (k + 2)) = .ok pts → pts.Pairwise (· ≤ ·)) := by
  refine ⟨?_, ?_, ?_, ?_, ?_, ?_⟩
  · simp only [Scores.thresholdAtMetricPoints, length_sortQ, List.length_append]
  · intro k a b ha hb
    simp only [Scores.thresholdAtMetricPoints, ha, hb]
  · intro k ha
    simp only [Scores.thresholdAtMetricPoints, ha]
  · intro p; rfl
  · intro pts hp
    simp only [Scores.thresholdAtMetricPoints] at hp
    split at hp
    · exact absurd hp (by simp)
    · have : sortQ (s.pos ++ s.neg) = pts := by simpa using hp
      rw [← this]; exact sortQ_pairwise _
  · intro k pts hp
    simp only [Scores.thresholdAtMetricPoints] at hp
    split at hp
    · split at hp
      · exact absurd hp (by simp)
      · rename_i a b _ _ hab
        rw [not_le] at hab
        have : linspace a b (k + 2) = pts := by simpa using hp
        rw [← this]
        exact (linspace_spec a b k hab).2.2.2.imp (fun h => le_of_lt h)
    · exact absurd hp (by simp)

/-- **C17 (metric).** `threshold_at_metric` is the inversion of the metric evaluated at the
selected points: whenever the points are selected without error and the metric is NaN-free there
(values `ys`), the result is `invertPL pts ys` for each target; moreover `(pts, ys)` satisfies the
duplicate rule of `invert_pl_function` automatically (equal points have equal metric values), so
with non-decreasing points every C17 theorem applies. -/
theorem C17_metric (s : Scores) (m : Metric) (pa : PointsArg) (ts pts ys : List ℚ)
    (hp : s.thresholdAtMetricPoints pa = .ok pts) (hys : pts.map (s.metricAt m) = ys.map some) :
    s.thresholdAtMetric m pa ts =
      (if pts = [] then .error .valueError else .ok (ts.map (invertPL pts ys))) ∧
    (pts.Pairwise (· ≤ ·) → PLInput pts ys) := by
  have hlen : pts.length = ys.length := by
    have := congrArg List.length hys
    simpa using this
  constructor
  · unfold Scores.thresholdAtMetric Scores.thresholdOnPoints invertPLAllO
    rw [hp]
    simp only [bind, Except.bind]
    rw [hys]
    by_cases he : pts = []
    · subst he
      have : ys = [] := List.length_eq_zero_iff.mp (by rw [← hlen]; rfl)
      subst this
      rfl
    · have hye : ys ≠ [] := by
        intro e; apply he; apply List.length_eq_zero_iff.mp; rw [hlen, e]; rfl
      have : (ys.map some).isEmpty = false := by
        cases ys with
        | nil => exact absurd rfl hye
        | cons _ _ => rfl
      simp only [this, Bool.false_eq_true, if_false, he]
      congr 1
      apply List.map_congr_left
      intro t _
      exact invertPLO_some pts ys t
  · intro hs
    refine ⟨hs, hlen, ?_⟩
    intro j hj hx
    have e : ∀ i, i < pts.length → s.metricAt m (pts.getD i 0) = some (ys.getD i 0) := by
      intro i hi
      have h1 : (pts.map (s.metricAt m))[i]'(by simpa using hi) = (ys.map some)[i]'(by
        simpa [← hlen] using hi) := by simp only [hys]
      rw [List.getElem_map, List.getElem_map] at h1
      rw [getD_eq' pts i hi, getD_eq' ys i (by omega)]
      exact h1
    have e1 := e j (by omega)
    have e2 := e (j + 1) hj
    rw [hx] at e1
    rw [e1] at e2
    exact Option.some.inj e2

theorem C17_spec_points (p : List ℚ) : pointsOK p p 0 = true := by
  unfold pointsOK
  simp only [beq_self_eq_true, Bool.true_and, List.all_eq_true, decide_eq_true_eq]
  intro ab hab
  have := List.of_mem_zip hab
  have e : ab.1 = ab.2 := by
    induction p with
    | nil => simp at hab
    | cons v r ih =>
      rw [List.zip_cons_cons, List.mem_cons] at hab
      rcases hab with rfl | hab
      · rfl
      · exact ih hab (List.of_mem_zip hab)
  rw [e, sub_self, absR_zero]

/-! ### non-vacuity and the touch configurations -/

example : PLInput [0, 1, 1, 2] [0, 2, 2, 1] :=
  ⟨by decide +kernel, rfl, by
    intro j hj; have : j = 0 ∨ j = 1 ∨ j = 2 := by simp at hj; omega
    rcases this with rfl | rfl | rfl <;> decide +kernel⟩

/-- "V" touching the target from above: the touch point is reported once (segment 1, `la = 0`) -/
example : invertPL [0, 1, 2] [1, 0, 1] 0 = [1] := by decide +kernel
/-- "Λ" touching from below: reported once (segment 1) -/
example : invertPL [0, 1, 2] [0, 1, 0] 1 = [1] := by decide +kernel
/-- plateau at the target: only its right end is reported (segment 2), a genuine solution -/
example : invertPL [0, 1, 2, 3] [0, 1, 1, 2] 1 = [2] := by decide +kernel
/-- plateau at the target up to the last sample: no crossing; the fallback returns the first
sample of the plateau, a genuine solution -/
example : invertPL [0, 1, 2] [0, 1, 1] 1 = [1] := by decide +kernel
/-- touch at the last sample only: no crossing; the fallback returns it -/
example : invertPL [0, 1, 2] [0, 0, 1] 1 = [2] := by decide +kernel
/-- touch at the last sample plus a crossing elsewhere: the crossing is returned, the touch at
the last sample is NOT listed (every returned point is still a genuine solution; the docstring's
"contains all solutions" does not hold) -/
example : invertPL [0, 1, 2] [0, 2, 1] 1 = [1 / 2] := by decide +kernel
/-- no solution: the closest sample, first index on ties -/
example : invertPL [0, 1, 2] [1, 3, 1] 0 = [0] := by decide +kernel

/-- Non-vacuity of `C17_metric`: a concrete object, user points, FNR values `0, 1/3, 2/3`. -/
example : ∃ (s : Scores) (pts ys : List ℚ), s.thresholdAtMetricPoints (.arr [0, 2, 5 / 2]) = .ok pts ∧
    pts.map (s.metricAt .fnr) = ys.map some ∧ pts.Pairwise (· ≤ ·) := by
  refine ⟨⟨[1, 2, 3], [0, 3 / 2], 0, 0, ⟨.pos, .pos⟩⟩, [0, 2, 5 / 2], [0, 1 / 3, 2 / 3], rfl, ?_,
    by decide +kernel⟩
  have h : ∀ p, (⟨[1, 2, 3], [0, 3 / 2], 0, 0, ⟨.pos, .pos⟩⟩ : Scores).metricAt .fnr p =
      (countCM [1, 2, 3] [0, 3 / 2] 0 0 ⟨.pos, .pos⟩ (.fin p)).rate .fnr := by
    intro p
    unfold Scores.metricAt
    rw [cm_eq_countCM_of_sorted _ (by decide +kernel) (by decide +kernel)]
  simp only [List.map_cons, List.map_nil, h]
  decide +kernel

/-- Non-vacuity of `linspace_spec` / the `int` branch of `C17_points`. -/
example : linspace 0 1 3 = [0, 1 / 2, 1] := by decide +kernel

end SA
