/-
C18 — `showbias`: row labels, entries by counting, normalisation, bootstrap intervals.

Property theorems: `C18_rows`, `C18_entry`, `C18_partition`, `C18_by_overall`, `C18_by_min`
(+ `C18_by_min_nan`), `C18_cell`, `C18_ci_same_quantity`, `C18_ci_none`, `C18_ci_ordered_quantile`,
`C18_ci_ordered_bc`, the spec forms `C18_spec_*`, and the statement `C18_ci_by_min_statement`
which does NOT hold of the coded behaviour (`C18_ci_by_min_fails`; known finding).
-/
import SA.Theorems.C01
import SA.Theorems.C13
import SA.Spec.C18

namespace SA
open Spec.C18

/-! ### row labels: the sorted distinct keys -/

theorem sbInsertKey_mem (k x : List Nat) (l : List (List Nat)) :
    x ∈ sbInsertKey k l ↔ x = k ∨ x ∈ l := by
  induction l with
  | nil => simp [sbInsertKey]
  | cons a l ih =>
    unfold sbInsertKey
    by_cases h1 : k < a
    · simp [h1]
    · by_cases h2 : k = a
      · subst h2; simp
      · simp only [h1, h2, if_false, List.mem_cons, ih]
        constructor
        · rintro (h | h | h)
          · exact Or.inr (Or.inl h)
          · exact Or.inl h
          · exact Or.inr (Or.inr h)
        · rintro (h | h | h)
          · exact Or.inr (Or.inl h)
          · exact Or.inl h
          · exact Or.inr (Or.inr h)

theorem sbInsertKey_sorted (k : List Nat) (l : List (List Nat)) (h : l.Pairwise (· < ·)) :
    (sbInsertKey k l).Pairwise (· < ·) := by
  induction l with
  | nil => simp [sbInsertKey]
  | cons a l ih =>
    rw [List.pairwise_cons] at h
    obtain ⟨ha, hl⟩ := h
    unfold sbInsertKey
    by_cases h1 : k < a
    · simp only [h1, if_true, List.pairwise_cons]
      refine ⟨?_, ha, hl⟩
      intro y hy
      rcases List.mem_cons.mp hy with rfl | hy
      · exact h1
      · exact List.lt_trans h1 (ha y hy)
    · by_cases h2 : k = a
      · subst h2
        rw [if_neg h1, if_pos rfl, List.pairwise_cons]
        exact ⟨ha, hl⟩
      · simp only [h1, h2, if_false, List.pairwise_cons]
        have hak : a < k := by
          rcases List.le_iff_lt_or_eq.mp (List.not_lt.mp h1) with h | h
          · exact h
          · exact absurd h.symm h2
        refine ⟨?_, ih hl⟩
        intro y hy
        rcases (sbInsertKey_mem k y l).mp hy with rfl | hy
        · exact hak
        · exact ha y hy

theorem sortedDistinct_mem (ks : List (List Nat)) (x : List Nat) :
    x ∈ sortedDistinct ks ↔ x ∈ ks := by
  induction ks with
  | nil => simp [sortedDistinct]
  | cons a l ih =>
    simp only [sortedDistinct, List.foldr_cons] at ih ⊢
    rw [sbInsertKey_mem, ih, List.mem_cons]

theorem sortedDistinct_sorted (ks : List (List Nat)) :
    (sortedDistinct ks).Pairwise (· < ·) := by
  induction ks with
  | nil => simp [sortedDistinct]
  | cons a l ih =>
    simp only [sortedDistinct, List.foldr_cons] at ih ⊢
    exact sbInsertKey_sorted a _ ih

theorem sortedDistinct_nodup (ks : List (List Nat)) : (sortedDistinct ks).Nodup := by
  have h := sortedDistinct_sorted ks
  unfold List.Nodup
  refine h.imp ?_
  intro a b hab he
  subst he
  exact List.lt_irrefl a hab

/-- **C18 (rows).** The row labels are exactly the group-value combinations occurring in the
data, strictly increasing in the lexicographic order (hence each once, in sorted order); every
data row carries exactly one of the labels; and the rows a frame row is computed from
(`groupRows`) are precisely the data rows carrying its label. -/
theorem C18_rows (rows : List SbRow) :
    (∀ k, k ∈ groupKeys rows ↔ ∃ r ∈ rows, r.key = k) ∧
    (groupKeys rows).Pairwise (· < ·) ∧
    (groupKeys rows).Nodup ∧
    (∀ r ∈ rows, (groupKeys rows).count r.key = 1) ∧
    (∀ k r, r ∈ groupRows rows k ↔ r ∈ rows ∧ r.key = k) := by
  have hmem : ∀ k, k ∈ groupKeys rows ↔ ∃ r ∈ rows, r.key = k := by
    intro k
    unfold groupKeys
    rw [sortedDistinct_mem, List.mem_map]
  refine ⟨hmem, sortedDistinct_sorted _, sortedDistinct_nodup _, ?_, ?_⟩
  · intro r hr
    exact List.count_eq_one_of_mem (sortedDistinct_nodup _) ((hmem r.key).mpr ⟨r, hr, rfl⟩)
  · intro k r
    simp [groupRows]

/-! ### entries: counting, and the groups partition the data -/

/-- cell-wise sum of a list of matrices -/
def CM.sumList (l : List CM) : CM := l.foldr CM.add ⟨0, 0, 0, 0⟩

theorem c18_sum_indicator (keys : List (List Nat)) (hnd : keys.Nodup) (a : List Nat)
    (ha : a ∈ keys) : (keys.map fun k => if a = k then 1 else 0).sum = 1 := by
  induction keys with
  | nil => cases ha
  | cons x l ih =>
    rw [List.nodup_cons] at hnd
    obtain ⟨hx, hl⟩ := hnd
    simp only [List.map_cons, List.sum_cons]
    by_cases hax : a = x
    · subst hax
      have : (l.map fun k => if a = k then 1 else 0).sum = 0 := by
        apply List.sum_eq_zero
        intro n hn
        obtain ⟨k, hk, rfl⟩ := List.mem_map.mp hn
        have : a ≠ k := fun h => hx (h ▸ hk)
        simp [this]
      rw [this]; simp
    · have hal : a ∈ l := by
        rcases List.mem_cons.mp ha with h | h
        · exact absurd h hax
        · exact h
      rw [ih hl hal]; simp [hax]

theorem c18_sum_map_add {α} (l : List α) (f g : α → Nat) :
    (l.map fun k => f k + g k).sum = (l.map f).sum + (l.map g).sum := by
  induction l with
  | nil => simp
  | cons a l ih => simp only [List.map_cons, List.sum_cons, ih]; omega

/-- counting any property group by group and adding up gives the count over the whole data -/
theorem sum_countP_groups (keys : List (List Nat)) (hnd : keys.Nodup) (rows : List SbRow)
    (hall : ∀ r ∈ rows, r.key ∈ keys) (P : SbRow → Bool) :
    (keys.map fun k => (groupRows rows k).countP P).sum = rows.countP P := by
  induction rows with
  | nil => simp [groupRows]
  | cons r rs ih =>
    have hr : r.key ∈ keys := hall r (List.mem_cons_self)
    have hrs : ∀ r' ∈ rs, r'.key ∈ keys := fun r' h => hall r' (List.mem_cons_of_mem _ h)
    have hstep : ∀ k, (groupRows (r :: rs) k).countP P =
        (groupRows rs k).countP P + (if r.key = k then (if P r then 1 else 0) else 0) := by
      intro k
      unfold groupRows
      rw [List.filter_cons]
      by_cases hk : r.key = k
      · have hb : (r.key == k) = true := by simp [hk]
        rw [if_pos hb, if_pos hk, List.countP_cons]
      · have hb : ¬ (r.key == k) = true := by simp [hk]
        rw [if_neg hb, if_neg hk]; rfl
    have hfun : (fun k => (groupRows (r :: rs) k).countP P) = fun k =>
        (groupRows rs k).countP P + (if r.key = k then (if P r then 1 else 0) else 0) :=
      funext hstep
    rw [hfun, c18_sum_map_add, ih hrs, List.countP_cons]
    congr 1
    by_cases hp : P r = true
    · simp only [hp, if_true]
      exact c18_sum_indicator keys hnd r.key hr
    · simp only [hp]
      simp

theorem countP_sbPos (rows : List SbRow) (f : Rat → Bool) :
    (sbPos rows).countP f = rows.countP (fun r => r.isPos && f r.score) := by
  unfold sbPos
  rw [List.countP_map, List.countP_filter]
  congr 1
  funext r
  simp only [Function.comp, Bool.and_comm]

theorem countP_sbNeg (rows : List SbRow) (f : Rat → Bool) :
    (sbNeg rows).countP f = rows.countP (fun r => !r.isPos && f r.score) := by
  unfold sbNeg
  rw [List.countP_map, List.countP_filter]
  congr 1
  funext r
  simp only [Function.comp, Bool.and_comm]

theorem CM.sumList_fields (l : List CM) :
    (CM.sumList l).tp = (l.map (·.tp)).sum ∧ (CM.sumList l).fn = (l.map (·.fn)).sum ∧
    (CM.sumList l).fp = (l.map (·.fp)).sum ∧ (CM.sumList l).tn = (l.map (·.tn)).sum := by
  induction l with
  | nil => simp [CM.sumList]
  | cons a l ih =>
    obtain ⟨h1, h2, h3, h4⟩ := ih
    simp only [CM.sumList, List.foldr_cons, CM.add, List.map_cons, List.sum_cons] at *
    exact ⟨by rw [h1], by rw [h2], by rw [h3], by rw [h4]⟩

theorem c18_CM_ext (a b : CM) (h1 : a.tp = b.tp) (h2 : a.fn = b.fn) (h3 : a.fp = b.fp)
    (h4 : a.tn = b.tn) : a = b := by
  cases a; cases b; simp only [CM.mk.injEq] at *; exact ⟨h1, h2, h3, h4⟩

/-- the four cells of the matrix of a set of rows, as counts over the rows themselves:
a row is a TP iff it is positive and accepted by the decision rule, etc. -/
theorem rowsCM_fields (cfg : Cfg) (rows : List SbRow) (t : ERat) :
    (rowsCM cfg rows t).tp = rows.countP (fun r => r.isPos && accept cfg r.score t) ∧
    (rowsCM cfg rows t).fn = rows.countP (fun r => r.isPos && !accept cfg r.score t) ∧
    (rowsCM cfg rows t).fp = rows.countP (fun r => !r.isPos && accept cfg r.score t) ∧
    (rowsCM cfg rows t).tn = rows.countP (fun r => !r.isPos && !accept cfg r.score t) := by
  simp only [rowsCM, countCM, Nat.add_zero, countP_sbPos, countP_sbNeg, and_self]

theorem c18_partition_aux (keys : List (List Nat)) (hnd : keys.Nodup) (cfg : Cfg)
    (rows : List SbRow) (hall : ∀ r ∈ rows, r.key ∈ keys) (t : ERat) :
    CM.sumList (keys.map fun k => groupCM cfg rows k t) = rowsCM cfg rows t := by
  obtain ⟨s1, s2, s3, s4⟩ := CM.sumList_fields (keys.map fun k => groupCM cfg rows k t)
  obtain ⟨r1, r2, r3, r4⟩ := rowsCM_fields cfg rows t
  apply c18_CM_ext
  · rw [s1, r1, List.map_map, ← sum_countP_groups keys hnd rows hall]
    congr 1; apply List.map_congr_left; intro k _
    exact (rowsCM_fields cfg (groupRows rows k) t).1
  · rw [s2, r2, List.map_map, ← sum_countP_groups keys hnd rows hall]
    congr 1; apply List.map_congr_left; intro k _
    exact (rowsCM_fields cfg (groupRows rows k) t).2.1
  · rw [s3, r3, List.map_map, ← sum_countP_groups keys hnd rows hall]
    congr 1; apply List.map_congr_left; intro k _
    exact (rowsCM_fields cfg (groupRows rows k) t).2.2.1
  · rw [s4, r4, List.map_map, ← sum_countP_groups keys hnd rows hall]
    congr 1; apply List.map_congr_left; intro k _
    exact (rowsCM_fields cfg (groupRows rows k) t).2.2.2

/-- **C18 (entry).** The entry in the row labelled `k` is the requested metric of the matrix
obtained by counting, with the documented decision rule of the configuration, the rows whose
group values are `k`: positives accepted / rejected, negatives accepted / rejected.  That matrix
is what the implementation's route computes (`Scores.from_labels` of the group's labels and
scores followed by the binary-search `cm`, C01) and it is the sum of the per-sample membership
indicators of `pointwise_cm` over the group's rows. -/
theorem C18_entry (metric : SbMetric) (cfg : Cfg) (rows : List SbRow) (k : List Nat) (t : ERat) :
    sbEntry metric cfg rows k t =
      (countCM (sbPos (groupRows rows k)) (sbNeg (groupRows rows k)) 0 0 cfg t).toQ.sbMetric metric ∧
    groupCM cfg rows k t =
      (Scores.fromLabels ((groupRows rows k).map fun r => (r.isPos, r.score)) 0 0 cfg false).cm t ∧
    groupCM cfg rows k t =
      pointwiseSum cfg ((groupRows rows k).map fun r => (r.isPos, r.score)) t ∧
    (groupCM cfg rows k t).tp =
      rows.countP (fun r => r.key == k && (r.isPos && accept cfg r.score t)) ∧
    (groupCM cfg rows k t).fn =
      rows.countP (fun r => r.key == k && (r.isPos && !accept cfg r.score t)) ∧
    (groupCM cfg rows k t).fp =
      rows.countP (fun r => r.key == k && (!r.isPos && accept cfg r.score t)) ∧
    (groupCM cfg rows k t).tn =
      rows.countP (fun r => r.key == k && (!r.isPos && !accept cfg r.score t)) := by
  have hpos : ∀ l : List SbRow,
      ((l.map fun r => (r.isPos, r.score)).filter (fun s => s.1)).map (·.2) = sbPos l := by
    intro l; unfold sbPos; rw [List.filter_map, List.map_map]; rfl
  have hneg : ∀ l : List SbRow,
      ((l.map fun r => (r.isPos, r.score)).filter (fun s => !s.1)).map (·.2) = sbNeg l := by
    intro l; unfold sbNeg; rw [List.filter_map, List.map_map]; rfl
  obtain ⟨f1, f2, f3, f4⟩ := rowsCM_fields cfg (groupRows rows k) t
  refine ⟨rfl, ?_, ?_, ?_, ?_, ?_, ?_⟩
  · unfold Scores.fromLabels
    rw [C01_cells, hpos, hneg]; rfl
  · rw [C01_pointwise_sum, hpos, hneg]; rfl
  · unfold groupCM; rw [f1]; unfold groupRows; rw [List.countP_filter]
    congr 1; funext r; rw [Bool.and_comm]
  · unfold groupCM; rw [f2]; unfold groupRows; rw [List.countP_filter]
    congr 1; funext r; rw [Bool.and_comm]
  · unfold groupCM; rw [f3]; unfold groupRows; rw [List.countP_filter]
    congr 1; funext r; rw [Bool.and_comm]
  · unfold groupCM; rw [f4]; unfold groupRows; rw [List.countP_filter]
    congr 1; funext r; rw [Bool.and_comm]

/-- **C18 (partition).** The groups partition the data: adding up the group matrices over the row
labels gives the matrix of the whole data set (the one `by_overall` divides by). -/
theorem C18_partition (cfg : Cfg) (rows : List SbRow) (t : ERat) :
    CM.sumList ((groupKeys rows).map fun k => groupCM cfg rows k t) = rowsCM cfg rows t := by
  obtain ⟨hmem, _, hnd, _, _⟩ := C18_rows rows
  exact c18_partition_aux _ hnd cfg rows (fun r hr => (hmem r.key).mpr ⟨r, hr, rfl⟩) t

/-! ### normalisation -/

/-- **C18 (by_overall).** Divisor 0: the column is returned unchanged; a non-zero divisor: every
entry is divided by it (NaN stays NaN); NaN divisor: every entry is NaN. -/
theorem C18_by_overall (col : List (Option ℚ)) :
    normaliseCol .byOverall col (some 0) = col ∧
    (∀ d : ℚ, d ≠ 0 → normaliseCol .byOverall col (some d) = col.map (Option.map (· / d))) ∧
    normaliseCol .byOverall col none = col.map (fun _ => none) := by
  refine ⟨?_, ?_, ?_⟩
  · simp [normaliseCol, divNorm]
  · intro d hd
    simp [normaliseCol, divNorm, hd]
  · simp [normaliseCol, divNorm]

theorem colMin_some (vals : List ℚ) (hne : vals ≠ []) :
    ∃ m, m ∈ vals ∧ (∀ v ∈ vals, m ≤ v) ∧ colMin (vals.map some) = some m := by
  induction vals with
  | nil => exact absurd rfl hne
  | cons a l ih =>
    cases l with
    | nil => exact ⟨a, by simp, by simp, rfl⟩
    | cons b l' =>
      obtain ⟨m, hm, hle, hc⟩ := ih (by simp)
      simp only [List.map_cons] at hc
      by_cases hab : a ≤ m
      · refine ⟨a, by simp, ?_, ?_⟩
        · intro v hv
          rcases List.mem_cons.mp hv with rfl | hv
          · exact le_refl _
          · exact le_trans hab (hle v hv)
        · simp only [List.map_cons, colMin, hc, minO, hab, if_true]
      · refine ⟨m, List.mem_cons_of_mem _ hm, ?_, ?_⟩
        · intro v hv
          rcases List.mem_cons.mp hv with rfl | hv
          · exact le_of_lt (not_le.mp hab)
          · exact hle v hv
        · simp only [List.map_cons, colMin, hc, minO, hab, if_false]

theorem colMin_nan (col : List (Option ℚ)) (h : none ∈ col) : colMin col = none := by
  induction col with
  | nil => cases h
  | cons a l ih =>
    cases l with
    | nil =>
      rcases List.mem_cons.mp h with h | h
      · simp [colMin, ← h]
      · cases h
    | cons b l' =>
      rcases List.mem_cons.mp h with h | h
      · subst h; simp [colMin, minO]
      · rw [colMin, ih h]; cases a <;> rfl

/-- **C18 (by_min).** For a column of defined entries the divisor is the smallest entry `m`.
`m = 0`: the column is returned unchanged.  `m ≠ 0`: every entry is divided by `m`, so the
smallest row becomes exactly 1; and if `m > 0` every entry of the result is `≥ 1`.
(With `max` in place of `min` the smallest row would become `m / max < 1`.) -/
theorem C18_by_min (vals : List ℚ) (hne : vals ≠ []) (ov : Option ℚ) :
    ∃ m, m ∈ vals ∧ (∀ v ∈ vals, m ≤ v) ∧ colMin (vals.map some) = some m ∧
      (m = 0 → normaliseCol .byMin (vals.map some) ov = vals.map some) ∧
      (m ≠ 0 → normaliseCol .byMin (vals.map some) ov = vals.map (fun v => some (v / m)) ∧
        some 1 ∈ normaliseCol .byMin (vals.map some) ov) ∧
      (0 < m → ∀ x ∈ normaliseCol .byMin (vals.map some) ov, ∃ v, x = some v ∧ 1 ≤ v) := by
  obtain ⟨m, hm, hle, hc⟩ := colMin_some vals hne
  have hnz : m ≠ 0 → normaliseCol .byMin (vals.map some) ov = vals.map (fun v => some (v / m)) := by
    intro h0
    simp only [normaliseCol, hc, divNorm, h0, if_false, List.map_map]
    apply List.map_congr_left
    intro v _
    rfl
  refine ⟨m, hm, hle, hc, ?_, ?_, ?_⟩
  · intro h0
    simp only [normaliseCol, hc, divNorm, h0, if_true, List.map_id']
  · intro h0
    refine ⟨hnz h0, ?_⟩
    rw [hnz h0]
    exact List.mem_map.mpr ⟨m, hm, by rw [div_self h0]⟩
  · intro hpos
    rw [hnz (ne_of_gt hpos)]
    intro x hx
    obtain ⟨v, hv, rfl⟩ := List.mem_map.mp hx
    exact ⟨v / m, rfl, (one_le_div hpos).mpr (hle v hv)⟩

/-- a NaN entry makes `np.min` NaN and with it the whole column -/
theorem C18_by_min_nan (col : List (Option ℚ)) (h : none ∈ col) (ov : Option ℚ) :
    normaliseCol .byMin col ov = col.map (fun _ => none) := by
  simp [normaliseCol, colMin_nan col h, divNorm]

/-! ### the frame, cell by cell -/

/-- the normalised value of an entry, given the overall metric and the column minimum -/
def normEntry (mode : NormMode) (e : Option ℚ) (overall colmin : Option ℚ) : Option ℚ :=
  match mode with
  | .none => e
  | .byOverall => divNorm e overall
  | .byMin => divNorm e colmin

/-- the cell in the row labelled `k` of the model frame -/
def sbCellVal (metric : SbMetric) (cfg : Cfg) (mode : NormMode) (rows : List SbRow)
    (k : List Nat) (t : ERat) : Option ℚ :=
  normEntry mode (sbEntry metric cfg rows k t) (sbOverall metric cfg rows t)
    (colMin (sbRawCol metric cfg rows t))

theorem sbCol_eq (metric : SbMetric) (cfg : Cfg) (mode : NormMode) (rows : List SbRow) (t : ERat) :
    sbCol metric cfg mode rows t = (groupKeys rows).map fun k => sbCellVal metric cfg mode rows k t := by
  unfold sbCol sbCellVal
  cases mode <;> simp [normaliseCol, normEntry, sbRawCol, List.map_map, Function.comp_def]

/-- **C18 (frame).** The returned frame has one row per label (in `groupKeys` order) and one
column per threshold; the cell `(k, t)` is the entry of group `k` at `t`, divided by the overall
metric at `t` (`by_overall`) or by the smallest group entry at `t` (`by_min`) in the sense of
`divNorm` (unchanged for divisor 0). -/
theorem sbTable_eq (metric : SbMetric) (cfg : Cfg) (mode : NormMode) (rows : List SbRow)
    (ts : List ERat) (hne : rows ≠ []) :
    sbTable metric cfg mode rows ts =
      .ok ((groupKeys rows).map fun k => ts.map fun t => sbCellVal metric cfg mode rows k t) := by
  unfold sbTable
  rw [if_neg hne]
  congr 1
  apply List.ext_getElem
  · simp
  · intro i h1 h2
    simp only [List.length_map, List.length_range] at h1
    simp only [List.getElem_map, List.getElem_range]
    apply List.map_congr_left
    intro t _
    rw [sbCol_eq, List.getD_eq_getElem?_getD, List.getElem?_map, List.getElem?_eq_getElem h1]
    rfl

theorem keyIndex_of_mem (rows : List SbRow) (k : List Nat) (hk : k ∈ groupKeys rows) :
    ∃ i, ∃ h : i < (groupKeys rows).length, keyIndex rows k = some i ∧ (groupKeys rows)[i] = k := by
  have hlt : (groupKeys rows).findIdx (· == k) < (groupKeys rows).length :=
    List.findIdx_lt_length_of_exists ⟨k, hk, by simp⟩
  refine ⟨_, hlt, ?_, ?_⟩
  · simp only [keyIndex, hlt, if_true]
  · have := List.findIdx_getElem (w := hlt)
    simpa using this

/-- **C18 (cell).** Looking a label up in the frame gives the normalised entry of that group. -/
theorem C18_cell (metric : SbMetric) (cfg : Cfg) (mode : NormMode) (rows : List SbRow)
    (k : List Nat) (t : ERat) (hk : k ∈ groupKeys rows) :
    sbCell metric cfg mode rows k t = some (sbCellVal metric cfg mode rows k t) := by
  obtain ⟨i, hi, hki, hik⟩ := keyIndex_of_mem rows k hk
  unfold sbCell
  rw [hki]
  simp only [sbCol_eq, List.getD_eq_getElem?_getD, List.getElem?_map, List.getElem?_eq_getElem hi,
    hik, Option.map, Option.getD]

/-- `by_overall` cell: entry / overall whenever the overall metric is defined and non-zero,
the entry itself when it is 0. -/
theorem C18_cell_by_overall (metric : SbMetric) (cfg : Cfg) (rows : List SbRow)
    (k : List Nat) (t : ERat) (hk : k ∈ groupKeys rows) (d : ℚ)
    (hd : sbOverall metric cfg rows t = some d) :
    sbCell metric cfg .byOverall rows k t =
      some (if d = 0 then sbEntry metric cfg rows k t
            else (sbEntry metric cfg rows k t).map (· / d)) := by
  rw [C18_cell _ _ _ _ _ _ hk]
  simp only [sbCellVal, normEntry, hd, divNorm]

/-! ### bootstrap intervals -/

theorem bootstrapCI_pow_irrelevant (nrm : Normal) (p15 p15' : ℚ → ℚ) (m : BootMethod)
    (hm : m ≠ .bca) (vals : List (Option ℚ)) (th al : ℚ) :
    bootstrapCI nrm p15 m vals th al = bootstrapCI nrm p15' m vals th al := by
  cases m
  · rfl
  · simp [bootstrapCI]
  · exact absurd rfl hm

theorem sbRepsNorm_by_overall (reps : List (Option ℚ)) (d : ℚ) (hd : d ≠ 0) :
    sbRepsNorm .byOverall reps (some d) = reps.map (Option.map fun x => (1 / d) * x + 0) := by
  simp only [sbRepsNorm, divNorm, hd, if_false]
  apply List.map_congr_left
  intro v _
  cases v with
  | none => rfl
  | some x => simp only [Option.map]; congr 1; ring

/-- **C18 (same quantity, by_overall).** The replicates and the estimate are divided by the same
divisor `d > 0` (the overall metric of the original data: it does not depend on the replicate),
so the interval reported next to the normalised value `e / d` is the interval of the raw metric
around `e`, divided by `d` — for the quantile and BC methods unconditionally, for BCa under the
homogeneity of the `** 1.5` oracle that C13_affine needs. -/
theorem C18_ci_same_quantity (nrm : Normal) (p15 : ℚ → ℚ) (m : BootMethod)
    (reps : List (Option ℚ)) (e d alpha : ℚ) (hd : 0 < d)
    (hp : m = .bca → ∀ x, p15 ((1 / d) * (1 / d) * x) = (1 / d) * (1 / d) * (1 / d) * p15 x) :
    sbCI nrm p15 m .byOverall reps (e / d) (some d) alpha =
      ((bootstrapCI nrm p15 m reps e alpha).1.map (· / d),
       (bootstrapCI nrm p15 m reps e alpha).2.map (· / d)) := by
  have hc : 0 < 1 / d := by positivity
  have he : e / d = (1 / d) * e + 0 := by ring
  have hf : (fun x : ℚ => x / d) = fun x => (1 / d) * x + 0 := by funext x; ring
  unfold sbCI
  rw [sbRepsNorm_by_overall reps d (ne_of_gt hd), he, hf]
  by_cases hm : m = .bca
  · exact C13_affine nrm p15 m reps e alpha (1 / d) 0 hc (hp hm)
  · rw [bootstrapCI_pow_irrelevant nrm p15 (fun _ => 0) m hm,
      bootstrapCI_pow_irrelevant nrm p15 (fun _ => 0) m hm reps]
    exact C13_affine nrm (fun _ => 0) m reps e alpha (1 / d) 0 hc (by intro x; ring)

/-- without normalisation the interval is `utils.bootstrap_ci` of the raw replicates -/
theorem C18_ci_none (nrm : Normal) (p15 : ℚ → ℚ) (m : BootMethod) (reps : List (Option ℚ))
    (e : ℚ) (ov : Option ℚ) (alpha : ℚ) :
    sbCI nrm p15 m .none reps e ov alpha = bootstrapCI nrm p15 m reps e alpha := rfl

/-- **C18 (ordered, quantile).** `lower ≤ upper` (NaN only together) for every normalisation. -/
theorem C18_ci_ordered_quantile (nrm : Normal) (p15 : ℚ → ℚ) (mode : NormMode)
    (reps : List (Option ℚ)) (est : ℚ) (ov : Option ℚ) (al : ℚ) (h0 : 0 ≤ al) (h1 : al ≤ 1) :
    optLe (sbCI nrm p15 .quantile mode reps est ov al).1 (sbCI nrm p15 .quantile mode reps est ov al).2 :=
  C13_ordered_quantile nrm p15 _ est al h0 h1

/-- **C18 (ordered, BC)** under the oracle hypotheses of C13. -/
theorem C18_ci_ordered_bc (nrm : Normal) (hn : nrm.Lawful) (p15 : ℚ → ℚ) (mode : NormMode)
    (reps : List (Option ℚ)) (est : ℚ) (ov : Option ℚ) (al : ℚ) (h0 : 0 < al) (h1 : al < 1) :
    optLe (sbCI nrm p15 .bc mode reps est ov al).1 (sbCI nrm p15 .bc mode reps est ov al).2 :=
  C13_ordered_bc nrm hn p15 _ est al h0 h1

theorem quantileLinear_single (c q : ℚ) : quantileLinear [some c] q = some c := by
  have h := C13_in_range [some c] q
  cases hq : quantileLinear [some c] q with
  | none => rw [hq] at h; simp at h
  | some r =>
    rw [hq] at h
    simp only [List.filterMap_cons, id, List.filterMap_nil, List.mem_singleton, exists_eq_left] at h
    exact congrArg some (le_antisymm h.2 h.1)

/-- What `C18_ci_same_quantity` would say for `by_min`: the interval is the interval of the raw
replicates divided by the divisor of the reported value (the minimum over the GROUPS).
NOT a theorem of the coded behaviour — see `C18_ci_by_min_fails` (known finding:
`np.min(samples, axis=0)` is the minimum over the bootstrap axis). -/
def C18_ci_by_min_statement : Prop :=
  ∀ (nrm : Normal) (p15 : ℚ → ℚ) (m : BootMethod) (col : List ℚ) (g : ℕ) (e mn : ℚ)
    (repsG : List (Option ℚ)) (alpha : ℚ),
    col[g]? = some e → colMin (col.map some) = some mn → 0 < mn →
    sbCI nrm p15 m .byMin repsG (e / mn) none alpha =
      ((bootstrapCI nrm p15 m repsG e alpha).1.map (· / mn),
       (bootstrapCI nrm p15 m repsG e alpha).2.map (· / mn))

/-- Counterexample in the model of the coded behaviour: groups with metric 1/2 and 1, one
replicate equal to the estimate 1 of the second group (identity sampler), quantile method.  The
reported value is 1 / (1/2) = 2; the coded interval is [1, 1]. -/
theorem C18_ci_by_min_fails : ¬ C18_ci_by_min_statement := by
  intro h
  have := h Normal.toy (fun _ => 0) .quantile [1 / 2, 1] 1 1 (1 / 2) [some 1] (1 / 2) rfl
    (by simp [colMin, minO]; norm_num) (by norm_num)
  simp only [sbCI, sbRepsNorm, colMin, divNorm, List.map_cons, List.map_nil, bootstrapCI,
    quantileLinear_single, Option.map, Prod.mk.injEq] at this
  norm_num at this
  rw [quantileLinear_single] at this
  norm_num at this

example : sbCI Normal.toy (fun _ => 0) .quantile .byMin [some 1] 2 none (1 / 2) = (some 1, some 1) := by
  simp only [sbCI, sbRepsNorm, colMin, divNorm, List.map_cons, List.map_nil, bootstrapCI]
  norm_num
  constructor <;> exact quantileLinear_single _ _

/-! ### the executable spec clauses hold of the model (eps = 0) -/

theorem c18_nearO_self (x : Option ℚ) : nearO 0 x x = true := by
  cases x <;> simp [nearO, absQ]

theorem c18_rowNear_self (l : List (Option ℚ)) : rowNear 0 l l = true := by
  induction l with
  | nil => rfl
  | cons a l ih =>
    simp only [rowNear, List.length_cons, beq_self_eq_true, List.zip_cons_cons, List.all_cons,
      c18_nearO_self, Bool.true_and] at ih ⊢
    exact ih

theorem c18_all_zip_map {α β} (l : List α) (f : α → β) (g : α × β → Bool)
    (h : ∀ k ∈ l, g (k, f k) = true) : (l.zip (l.map f)).all g = true := by
  induction l with
  | nil => rfl
  | cons a l ih =>
    simp only [List.map_cons, List.zip_cons_cons, List.all_cons, Bool.and_eq_true]
    exact ⟨h a (List.mem_cons_self), ih (fun k hk => h k (List.mem_cons_of_mem _ hk))⟩

theorem sbTable_ne (metric : SbMetric) (cfg : Cfg) (mode : NormMode) (rows : List SbRow)
    (ts : List ERat) (T : List (List (Option ℚ))) (h : sbTable metric cfg mode rows ts = .ok T) :
    rows ≠ [] := by
  intro h0; rw [h0] at h; simp [sbTable] at h

theorem C18_spec_labels (rows : List SbRow) (ts : List ERat) :
    labelsOK rows ts (groupKeys rows) ts = true := by
  simp [labelsOK]

theorem C18_spec_entry (metric : SbMetric) (cfg : Cfg) (rows : List SbRow) (ts : List ERat)
    (T : List (List (Option ℚ))) (h : sbTable metric cfg .none rows ts = .ok T) :
    entryOK 0 metric cfg rows ts (groupKeys rows) T = true := by
  rw [sbTable_eq _ _ _ _ _ (sbTable_ne _ _ _ _ _ _ h)] at h
  injection h with h
  subst h
  simp only [entryOK, List.length_map, beq_self_eq_true, Bool.true_and]
  apply c18_all_zip_map
  intro k _
  exact c18_rowNear_self _

theorem C18_spec_norm (metric : SbMetric) (cfg : Cfg) (mode : NormMode) (rows : List SbRow)
    (ts : List ERat) (T : List (List (Option ℚ))) (h : sbTable metric cfg mode rows ts = .ok T) :
    normOK 0 metric cfg mode rows ts (groupKeys rows) T = true := by
  rw [sbTable_eq _ _ _ _ _ (sbTable_ne _ _ _ _ _ _ h)] at h
  injection h with h
  subst h
  simp only [normOK, List.length_map, beq_self_eq_true, Bool.true_and]
  apply c18_all_zip_map
  intro k hk
  simp only [List.length_map, beq_self_eq_true, Bool.true_and]
  apply c18_all_zip_map
  intro t _
  simp only [C18_cell metric cfg mode rows k t hk, c18_nearO_self]

/-- a column whose minimum is defined is a list of numbers -/
theorem allSome_of_colMin (col : List (Option ℚ)) (m : ℚ) (h : colMin col = some m) :
    ∃ vals : List ℚ, col = vals.map some := by
  have hn : none ∉ col := fun hc => by rw [colMin_nan col hc] at h; cases h
  refine ⟨col.filterMap id, ?_⟩
  clear h
  induction col with
  | nil => rfl
  | cons a l ih =>
    cases a with
    | none => exact absurd (List.mem_cons_self) hn
    | some x =>
      have := ih (fun hc => hn (List.mem_cons_of_mem _ hc))
      simp only [List.filterMap_cons, id, List.map_cons]
      simp only [id] at this
      rw [← this]

/-- after `by_min` the column minimum is 0 (divisor 0) or exactly 1 (positive divisor) -/
theorem colMin_byMin (vals : List ℚ) (hne : vals ≠ []) (ov : Option ℚ) (m : ℚ)
    (hc : colMin (vals.map some) = some m) :
    (m = 0 → colMin (normaliseCol .byMin (vals.map some) ov) = some 0) ∧
    (0 < m → colMin (normaliseCol .byMin (vals.map some) ov) = some 1) := by
  obtain ⟨m', hm, hle, hc', h0, hnz, hpos⟩ := C18_by_min vals hne ov
  rw [hc] at hc'
  injection hc' with hmm
  subst hmm
  constructor
  · intro hz
    rw [h0 hz, hc, hz]
  · intro hp
    obtain ⟨heq, hone⟩ := hnz (ne_of_gt hp)
    have hne' : (vals.map fun v => v / m) ≠ [] := by
      intro h; exact hne (List.map_eq_nil_iff.mp h)
    obtain ⟨w, hw, hwle, hwc⟩ := colMin_some (vals.map fun v => v / m) hne'
    have hmap : normaliseCol .byMin (vals.map some) ov = (vals.map fun v => v / m).map some := by
      rw [heq, List.map_map]; rfl
    rw [hmap, hwc]
    congr 1
    apply le_antisymm
    · have : m / m ∈ vals.map fun v => v / m := List.mem_map.mpr ⟨m, hm, rfl⟩
      have := hwle _ this
      rwa [div_self (ne_of_gt hp)] at this
    · obtain ⟨v, hv, rfl⟩ := List.mem_map.mp hw
      exact (one_le_div hp).mpr (hle v hv)

theorem obsCol_model (metric : SbMetric) (cfg : Cfg) (mode : NormMode) (rows : List SbRow)
    (ts : List ERat) (j : Nat) (t : ERat) (hj : ts[j]? = some t) :
    obsCol ((groupKeys rows).map fun k => ts.map fun t => sbCellVal metric cfg mode rows k t) j =
      sbCol metric cfg mode rows t := by
  rw [sbCol_eq]
  unfold obsCol
  rw [List.map_map]
  apply List.map_congr_left
  intro k _
  simp only [Function.comp, List.getD_eq_getElem?_getD, List.getElem?_map, hj, Option.map,
    Option.getD]

theorem C18_spec_minrow (metric : SbMetric) (cfg : Cfg) (rows : List SbRow)
    (ts : List ERat) (T : List (List (Option ℚ))) (h : sbTable metric cfg .byMin rows ts = .ok T) :
    minRowOK 0 metric cfg rows ts T = true := by
  have hne := sbTable_ne _ _ _ _ _ _ h
  rw [sbTable_eq _ _ _ _ _ hne] at h
  injection h with h
  subst h
  unfold minRowOK
  rw [List.all_eq_true]
  intro tj htj
  obtain ⟨t, j⟩ := tj
  have hj : ts[j]? = some t := List.mem_zipIdx_iff_getElem?.mp htj
  dsimp only
  rw [obsCol_model metric cfg .byMin rows ts j t hj]
  cases hcm : colMin (sbRawCol metric cfg rows t) with
  | none => rfl
  | some m =>
    dsimp only
    obtain ⟨vals, hv⟩ := allSome_of_colMin _ m hcm
    have hvne : vals ≠ [] := by
      intro h0; rw [h0] at hv; rw [hv] at hcm; simp [colMin] at hcm
    have hcol : sbCol metric cfg .byMin rows t =
        normaliseCol .byMin (vals.map some) (sbOverall metric cfg rows t) := by
      unfold sbCol; rw [hv]
    rw [hv] at hcm
    obtain ⟨hz, hp⟩ := colMin_byMin vals hvne (sbOverall metric cfg rows t) m hcm
    by_cases h0 : m = 0
    · rw [if_pos h0, hcol, hz h0]; exact c18_nearO_self _
    · rw [if_neg h0]
      by_cases hpos : 0 < m
      · rw [if_pos hpos, hcol, hp hpos]; exact c18_nearO_self _
      · rw [if_neg hpos]

theorem C18_spec_ci_ordered (lo hi : Option ℚ) (h : optLe lo hi) :
    ciOrderedOK 0 [[lo]] [[hi]] = true := by
  cases lo <;> cases hi <;> simp_all [ciOrderedOK, optLe]

/-! ### non-vacuity: the hypotheses are satisfiable, and a concrete frame -/

/-- two group columns, keys given unsorted with a repetition: three rows, sorted -/
example : groupKeys [⟨[1, 0], true, 1⟩, ⟨[0, 2], false, 2⟩, ⟨[1, 0], false, 3⟩, ⟨[0, 1], true, 0⟩]
    = [[0, 1], [0, 2], [1, 0]] := by decide +kernel

/-- `by_min` on the column (1/2, 1): the smallest row becomes 1 (with `max` it would be 1/2) -/
example : normaliseCol .byMin [some (1 / 2), some 1] none = [some 1, some 2] := by
  simp only [normaliseCol, colMin, minO, divNorm, List.map_cons, List.map_nil, Option.map]
  norm_num

example : ([1 / 2, 1] : List ℚ) ≠ [] := by simp

/-- hypotheses of `C18_ci_same_quantity` for BCa: `x ↦ 0` is homogeneous; `d = 2` -/
example : (0 : ℚ) < 2 ∧ ∀ x : ℚ, (fun _ : ℚ => (0 : ℚ)) ((1 / 2) * (1 / 2) * x) =
    (1 / 2) * (1 / 2) * (1 / 2) * (fun _ : ℚ => (0 : ℚ)) x := by
  constructor
  · norm_num
  · intro x; simp

/-- hypothesis of `C18_ci_ordered_bc` -/
example : Normal.toy.Lawful := Normal.toy_lawful

/-- hypothesis of the `C18_spec_*` theorems: a non-empty frame has a table -/
example : ∃ T, sbTable .tpr ⟨.pos, .pos⟩ .byMin [⟨[0], true, 1⟩] [.fin 0] = .ok T :=
  ⟨_, sbTable_eq _ _ _ _ _ (by simp)⟩

/-- hypothesis of `C18_cell`: the key of a data row is a row label -/
example : ([0] : List Nat) ∈ groupKeys [⟨[0], true, 1⟩] := by decide +kernel

end SA
