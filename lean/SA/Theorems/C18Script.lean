/-
C18 / C12 / C13 — `showbias(..., bootstrap_ci=True)` end to end on the scripted RNG.

`showbiasScript` (SA/Model/ShowbiasScript.lean) is `showbias` with the bootstrap replicates computed
inside the model from a script of RNG answers: group keys -> `score_object` -> point estimate ->
`nb_samples` consecutive `GroupScores.bootstrap_sample` runs threading one `RngState` -> group metric
of every sample -> normalisation -> `utils.bootstrap_ci` per component -> three frames.

`np.argsort` is not stable, so the implementation's `score_object` holds SOME admissible joint order
of the rows; every theorem is stated for `sbScriptFrom … g` with `g` ANY admissible object
(`SbObjectOf cfg rows g`, i.e. `c12_TieEq (sbObject cfg rows) g`; `C12_tie_order_irrelevant` shows all
observables of `g` are those of the model's object) and specialised to `showbiasScript`.

* refinement (`C18_script_refines`): the value frame IS the table of the component model
  (`sbTable`), and every interval cell IS `sbCI` / `ciComponent` of the existing component model with
  the script-driven replicates;
* the RNG stream (`C18_script_state`, `C18_script_requests`): exactly `nb_samples` sample draws;
* totality (`C18_script_total`): a runnable configuration returns frames on EVERY script;
* shape (`C18_script_shape`), ordering (`C18_script_ordered_quantile`, `C18_script_ordered_bc`),
  same quantity (`C18_script_same_quantity`, reusing `C18_ci_same_quantity`),
  NaN (`C18_script_nan`, `C18_script_nan_value`);
* in-support runs (`C18_script_replicates`): every replicate is the group metric of a sorted
  sample whose labelled pairs are pairs of the data.

Helper lemmas: SA/Proofs/ShowbiasScript.lean.
-/
import SA.Proofs.ShowbiasScript

namespace SA

/-! ### the frames of a returned run -/

/-- what a returned run consists of: the replicate list the loop produced and the frames built
from it -/
theorem c18s_from_ok (metric : SbMetric) (mode : NormMode) (keys : List (List ℕ)) (ts : List ERat)
    (p : SbBootParams) (g : GScores) (st : RngState) (F : SbFrames) (st1 : RngState)
    (h : sbScriptFrom metric mode keys ts p g st = (.ok F, st1)) :
    ∃ reps, gDrawMapped g p.cfg (sbGroupMetric metric ts) p.nbSamples st = (.ok reps, st1) ∧
      F = sbFramesOf p mode keys ts (sbGroupMetric metric ts g) (sbOverallMetric metric ts g) reps := by
  unfold sbScriptFrom at h
  rcases hd : gDrawMapped g p.cfg (sbGroupMetric metric ts) p.nbSamples st with ⟨r, s1⟩
  rw [hd] at h
  cases r with
  | error e => simp only at h; cases h
  | ok reps =>
    simp only [Prod.mk.injEq, Except.ok.injEq] at h
    exact ⟨reps, by rw [h.2], h.1.symm⟩

theorem c18s_frames_lower (p : SbBootParams) (mode : NormMode) (keys : List (List ℕ))
    (ts : List ERat) (est : List (List (Option ℚ))) (ov : List (Option ℚ))
    (reps : List (List (List (Option ℚ)))) (i j : ℕ) (hi : i < est.length) (hj : j < ts.length) :
    sbCellAt (sbFramesOf p mode keys ts est ov reps).lower i j =
      (sbScriptCI p mode reps (sbNormalise mode est ov) ov i j).1 ∧
    sbCellAt (sbFramesOf p mode keys ts est ov reps).upper i j =
      (sbScriptCI p mode reps (sbNormalise mode est ov) ov i j).2 := by
  simp only [sbFramesOf, List.map_map, Function.comp_def]
  exact ⟨c18s_cell_range est.length ts.length _ i j hi hj,
    c18s_cell_range est.length ts.length _ i j hi hj⟩

/-! ### refinement to the component model -/

/-- the conclusions of the refinement theorem about the returned frames `F` and the replicate
array `reps` -/
structure SbRefines (metric : SbMetric) (cfg : Cfg) (mode : NormMode) (rows : List SbRow)
    (ts : List ERat) (p : SbBootParams) (F : SbFrames)
    (reps : List (List (List (Option ℚ)))) : Prop where
  /-- row labels: the sorted distinct keys (C18_rows); columns: the thresholds -/
  keys : F.keys = groupKeys rows
  cols : F.cols = ts
  /-- the value frame is the table of the component model (`C18_entry`, `C18_by_overall`, … apply) -/
  table : sbTable metric cfg mode rows ts = .ok F.values
  cell : ∀ i j (hi : i < (groupKeys rows).length) (hj : j < ts.length),
    sbCellAt F.values i j = sbCellVal metric cfg mode rows (groupKeys rows)[i] ts[j]
  /-- every interval cell is `utils.bootstrap_ci` of the normalised script-driven replicates of that
  component around the reported value -/
  ci : ∀ i j (_ : i < (groupKeys rows).length) (hj : j < ts.length),
    (sbCellAt F.lower i j, sbCellAt F.upper i j) =
      ciComponent p.nrm p.pow15 p.method
        (sbRepsNorm mode (sbRepsCol reps i j) (sbOverall metric cfg rows ts[j]))
        (sbCellAt F.values i j) p.alpha
  /-- … i.e. the component model `sbCI` wherever the reported value is a number -/
  sbci : ∀ i j (_ : i < (groupKeys rows).length) (hj : j < ts.length) (e : ℚ),
    sbCellAt F.values i j = some e →
    (sbCellAt F.lower i j, sbCellAt F.upper i j) =
      sbCI p.nrm p.pow15 p.method mode (sbRepsCol reps i j) e (sbOverall metric cfg rows ts[j]) p.alpha

/-- **C18 (refinement).** For a non-empty frame and ANY admissible `score_object` `g`: whenever the
script model returns frames `F`, the replicate loop returned an array `reps` (one (G, T) array per
sample, drawn from the script), the value frame is the table of SA/Model/Showbias.lean, and every
interval cell is the component model's interval with the script-driven replicates `reps[:, i, j]`. -/
theorem C18_script_refines (metric : SbMetric) (cfg : Cfg) (mode : NormMode) (rows : List SbRow)
    (ts : List ERat) (p : SbBootParams) (g : GScores) (st : RngState) (hne : rows ≠ [])
    (hg : SbObjectOf cfg rows g) (F : SbFrames) (st1 : RngState)
    (h : sbScriptFrom metric mode (groupKeys rows) ts p g st = (.ok F, st1)) :
    ∃ reps, gDrawMapped g p.cfg (sbGroupMetric metric ts) p.nbSamples st = (.ok reps, st1) ∧
      reps.length = p.nbSamples ∧ SbRefines metric cfg mode rows ts p F reps := by
  obtain ⟨reps, hd, hF⟩ := c18s_from_ok metric mode _ ts p g st F st1 h
  have hlen := (c18s_draw_state g p.cfg _ p.nbSamples st reps (by rw [hd])).2
  have hest := c18s_groupMetric_eq hg metric ts
  have hov := c18s_overallMetric_eq hg metric ts
  have hvals : F.values =
      (groupKeys rows).map fun k => ts.map fun t => sbCellVal metric cfg mode rows k t := by
    rw [hF]
    show sbNormalise mode _ _ = _
    rw [hest, hov]
    exact c18s_values_eq metric cfg mode rows ts
  have hcell : ∀ i j (hi : i < (groupKeys rows).length) (hj : j < ts.length),
      sbCellAt F.values i j = sbCellVal metric cfg mode rows (groupKeys rows)[i] ts[j] := by
    intro i j hi hj
    rw [hvals]
    exact c18s_cell_map _ _ _ i j hi hj
  have hestlen : (sbGroupMetric metric ts g).length = (groupKeys rows).length := by
    rw [hest, List.length_map]
  have hci : ∀ i j (_ : i < (groupKeys rows).length) (hj : j < ts.length),
      (sbCellAt F.lower i j, sbCellAt F.upper i j) =
        ciComponent p.nrm p.pow15 p.method
          (sbRepsNorm mode (sbRepsCol reps i j) (sbOverall metric cfg rows ts[j]))
          (sbCellAt F.values i j) p.alpha := by
    intro i j hi hj
    have hov' : (sbOverallMetric metric ts g).getD j none = sbOverall metric cfg rows ts[j] := by
      rw [hov]; simp [List.getD_eq_getElem?_getD, hj]
    obtain ⟨l1, l2⟩ := c18s_frames_lower p mode (groupKeys rows) ts (sbGroupMetric metric ts g)
      (sbOverallMetric metric ts g) reps i j (hestlen ▸ hi) hj
    rw [hF, l1, l2]
    simp only [sbScriptCI, hov']
    rfl
  refine ⟨reps, hd, hlen, ⟨by rw [hF]; rfl, by rw [hF]; rfl, ?_, hcell, hci, ?_⟩⟩
  · rw [sbTable_eq _ _ _ _ _ hne, hvals]
  · intro i j hi hj e he
    rw [hci i j hi hj, he]
    rfl

/-- the same for `showbias` itself (the model's stably sorted object) -/
theorem C18_script_refines_top (metric : SbMetric) (cfg : Cfg) (mode : NormMode)
    (rows : List SbRow) (ts : List ERat) (p : SbBootParams) (st : RngState) (F : SbFrames)
    (st1 : RngState) (h : showbiasScript metric cfg mode rows ts p st = (.ok F, st1)) :
    rows ≠ [] ∧ ∃ reps,
      gDrawMapped (sbObject cfg rows) p.cfg (sbGroupMetric metric ts) p.nbSamples st = (.ok reps, st1) ∧
      reps.length = p.nbSamples ∧ SbRefines metric cfg mode rows ts p F reps := by
  unfold showbiasScript at h
  by_cases hne : rows = []
  · rw [if_pos hne] at h; simp at h
  · rw [if_neg hne] at h
    exact ⟨hne, C18_script_refines metric cfg mode rows ts p _ st hne (SbObjectOf.self cfg rows) F st1 h⟩

/-- **C18 (empty frame).** `np.stack` raises `ValueError` in the point estimate, before anything is
drawn — as in the table model. -/
theorem C18_script_empty (metric : SbMetric) (cfg : Cfg) (mode : NormMode) (ts : List ERat)
    (p : SbBootParams) (st : RngState) :
    showbiasScript metric cfg mode [] ts p st = (.error .valueError, st) ∧
    sbTable metric cfg mode [] ts = .error .valueError := ⟨rfl, rfl⟩

/-! ### the RNG stream -/

/-- **C18 / C12 (the RNG stream).** Whenever the frames are returned, the RNG state is the one
after exactly `nb_samples` consecutive `GroupScores.bootstrap_sample(config)` calls on the
`score_object`, started in the state `showbias` was called in: nothing else touches the generator
(the point estimate, the normalisation and `utils.bootstrap_ci` draw nothing). -/
theorem C18_script_state (metric : SbMetric) (mode : NormMode) (keys : List (List ℕ))
    (ts : List ERat) (p : SbBootParams) (g : GScores) (st : RngState) (F : SbFrames)
    (h : (sbScriptFrom metric mode keys ts p g st).1 = .ok F) :
    (sbScriptFrom metric mode keys ts p g st).2 = gSampleStates g p.cfg p.nbSamples st := by
  rcases hr : sbScriptFrom metric mode keys ts p g st with ⟨r, st1⟩
  rw [hr] at h
  simp only at h
  subst h
  obtain ⟨reps, hd, _⟩ := c18s_from_ok metric mode keys ts p g st F st1 hr
  have := (c18s_draw_state g p.cfg _ p.nbSamples st reps (by rw [hd])).1
  rw [hd] at this
  exact this

/-- **C18 / C12 (the request sequence).** … and the requests issued (in call order) are those issued
before the call followed by the requests of `bootstrap_sample` call `0, 1, ..., nb_samples - 1`,
each started in the state its predecessor left (`gCallRequests`; their shape per call is what
`C12_strat_requests` describes). -/
theorem C18_script_requests (metric : SbMetric) (mode : NormMode) (keys : List (List ℕ))
    (ts : List ERat) (p : SbBootParams) (g : GScores) (st : RngState) (F : SbFrames)
    (h : (sbScriptFrom metric mode keys ts p g st).1 = .ok F) :
    (sbScriptFrom metric mode keys ts p g st).2.requests =
      st.requests ++ ((List.range p.nbSamples).map fun j =>
        gCallRequests g p.cfg (gSampleStates g p.cfg j st)).flatten := by
  rw [C18_script_state metric mode keys ts p g st F h, c18s_states_requests]

/-- an error of the sampler (smoothing, proportion sampling, unknown method / stratification)
propagates; the frames are not built -/
theorem C18_script_error (metric : SbMetric) (mode : NormMode) (keys : List (List ℕ))
    (ts : List ERat) (p : SbBootParams) (g : GScores) (st : RngState) (e : Err) (st1 : RngState)
    (h : gDrawMapped g p.cfg (sbGroupMetric metric ts) p.nbSamples st = (.error e, st1)) :
    sbScriptFrom metric mode keys ts p g st = (.error e, st1) := by
  simp only [sbScriptFrom, h]

/-! ### totality -/

theorem c18s_groups_ne {cfg : Cfg} {rows : List SbRow} {g : GScores} (hg : SbObjectOf cfg rows g)
    (hne : rows ≠ []) : g.groups ≠ [] := by
  rw [hg.groups_eq]
  intro h
  have hl : (groupKeys rows).length = 0 := by
    have := congrArg List.length h
    simpa using this
  obtain ⟨r, rest, rfl⟩ := List.exists_cons_of_ne_nil hne
  have := c18s_row_key_mem (r :: rest) r List.mem_cons_self
  rw [List.eq_nil_of_length_eq_zero hl] at this
  cases this

/-- the part of `SbRunnable` that concerns the configuration alone -/
def SbCfgRunnable (c : GBootCfg) : Prop :=
  c.smoothing = false ∧ (c.method = .replacement ∨ c.method = .singlePass ∨ c.method = .dynamic) ∧
  c.strat ≠ .unknown

theorem c18s_runnable {cfg : Cfg} {rows : List SbRow} {g : GScores} (hg : SbObjectOf cfg rows g)
    (hne : rows ≠ []) {c : GBootCfg} (hc : SbCfgRunnable c) : SbRunnable g c :=
  ⟨hc.1, hc.2.1, hc.2.2, c18s_groups_ne hg hne⟩

/-- **C18 (totality).** Non-empty frame, built-in sampler that does not raise by design
(replacement, single-pass or dynamic; no / label / group stratification; smoothing off): `showbias`
returns its three frames on EVERY script — in-support or not — and leaves the RNG in the state
after `nb_samples` draws; the replicate array is the group metric of `nb_samples` samples, each
carrying the object's group list and flags. -/
theorem C18_script_total (metric : SbMetric) (cfg : Cfg) (mode : NormMode) (rows : List SbRow)
    (ts : List ERat) (p : SbBootParams) (g : GScores) (st : RngState) (hne : rows ≠ [])
    (hg : SbObjectOf cfg rows g) (hc : SbCfgRunnable p.cfg) :
    ∃ smps : List GScores, smps.length = p.nbSamples ∧
      (∀ smp ∈ smps, smp.groups = g.groups ∧ smp.cfg = g.cfg) ∧
      sbScriptFrom metric mode (groupKeys rows) ts p g st =
        (.ok (sbFramesOf p mode (groupKeys rows) ts (sbGroupMetric metric ts g)
          (sbOverallMetric metric ts g) (smps.map (sbGroupMetric metric ts))),
         gSampleStates g p.cfg p.nbSamples st) := by
  obtain ⟨smps, hl, hd, hall, _⟩ := c18s_draw_spec g hg.inv' p.cfg (c18s_runnable hg hne hc)
    (sbGroupMetric metric ts) p.nbSamples st
  exact ⟨smps, hl, hall, by simp only [sbScriptFrom, hd]⟩

/-! ### shape -/

/-- a (G, T) array: `G` rows of `T` entries -/
def SbShape (G T : ℕ) (a : List (List (Option ℚ))) : Prop :=
  a.length = G ∧ ∀ r ∈ a, r.length = T

theorem c18s_normalise_shape (mode : NormMode) (a : List (List (Option ℚ))) (ov : List (Option ℚ))
    (G T : ℕ) (h : SbShape G T a) : SbShape G T (sbNormalise mode a ov) := by
  obtain ⟨h1, h2⟩ := h
  cases mode with
  | none => exact ⟨h1, h2⟩
  | byOverall =>
    refine ⟨by simp [sbNormalise, h1], ?_⟩
    intro r hr
    simp only [sbNormalise, List.mem_map] at hr
    obtain ⟨row, hrow, rfl⟩ := hr
    simp [h2 row hrow]
  | byMin =>
    refine ⟨by simp [sbNormalise, h1], ?_⟩
    intro r hr
    simp only [sbNormalise, List.mem_map] at hr
    obtain ⟨row, hrow, rfl⟩ := hr
    simp [h2 row hrow]

/-- **C18 (shape).** All three frames have one row per group (= per distinct key, in `groupKeys`
order) and one column per threshold; index and columns are the keys and the thresholds. -/
theorem C18_script_shape (metric : SbMetric) (cfg : Cfg) (mode : NormMode) (rows : List SbRow)
    (ts : List ERat) (p : SbBootParams) (g : GScores) (st : RngState)
    (hg : SbObjectOf cfg rows g) (F : SbFrames) (st1 : RngState)
    (h : sbScriptFrom metric mode (groupKeys rows) ts p g st = (.ok F, st1)) :
    F.keys = groupKeys rows ∧ F.cols = ts ∧
    SbShape (groupKeys rows).length ts.length F.values ∧
    SbShape (groupKeys rows).length ts.length F.lower ∧
    SbShape (groupKeys rows).length ts.length F.upper := by
  obtain ⟨reps, _, hF⟩ := c18s_from_ok metric mode _ ts p g st F st1 h
  have hest := c18s_groupMetric_eq hg metric ts
  have hshape : SbShape (groupKeys rows).length ts.length (sbGroupMetric metric ts g) := by
    rw [hest]
    refine ⟨by simp, ?_⟩
    intro r hr
    obtain ⟨k, _, rfl⟩ := List.mem_map.mp hr
    simp
  rw [hF]
  refine ⟨rfl, rfl, c18s_normalise_shape mode _ _ _ _ hshape, ?_, ?_⟩
  · refine ⟨by simp [sbFramesOf, hshape.1], ?_⟩
    intro r hr
    simp only [sbFramesOf, List.map_map, List.mem_map, List.mem_range] at hr
    obtain ⟨i, _, rfl⟩ := hr
    simp
  · refine ⟨by simp [sbFramesOf, hshape.1], ?_⟩
    intro r hr
    simp only [sbFramesOf, List.map_map, List.mem_map, List.mem_range] at hr
    obtain ⟨i, _, rfl⟩ := hr
    simp

/-! ### ordering -/

theorem c18s_ciComponent_ordered_quantile (nrm : Normal) (p15 : ℚ → ℚ) (col : List (Option ℚ))
    (est : Option ℚ) (al : ℚ) (h0 : 0 ≤ al) (h1 : al ≤ 1) :
    optLe (ciComponent nrm p15 .quantile col est al).1 (ciComponent nrm p15 .quantile col est al).2 := by
  cases est with
  | none => exact C13_ordered_quantile nrm p15 col 0 al h0 h1
  | some th => exact C13_ordered_quantile nrm p15 col th al h0 h1

theorem c18s_ciComponent_ordered_bc (nrm : Normal) (hn : nrm.Lawful) (p15 : ℚ → ℚ)
    (col : List (Option ℚ)) (est : Option ℚ) (al : ℚ) (h0 : 0 < al) (h1 : al < 1) :
    optLe (ciComponent nrm p15 .bc col est al).1 (ciComponent nrm p15 .bc col est al).2 := by
  cases est with
  | none => exact trivial
  | some th => exact C13_ordered_bc nrm hn p15 col th al h0 h1

/-- **C18 (ordered, quantile).** For every script, every normalisation (`by_min` as coded included)
and `0 ≤ alpha ≤ 1`: in every cell `lower ≤ upper`, NaN only together. -/
theorem C18_script_ordered_quantile (metric : SbMetric) (cfg : Cfg) (mode : NormMode)
    (rows : List SbRow) (ts : List ERat) (p : SbBootParams) (g : GScores) (st : RngState)
    (hne : rows ≠ []) (hg : SbObjectOf cfg rows g) (hm : p.method = .quantile)
    (h0 : 0 ≤ p.alpha) (h1 : p.alpha ≤ 1) (F : SbFrames) (st1 : RngState)
    (h : sbScriptFrom metric mode (groupKeys rows) ts p g st = (.ok F, st1)) :
    ∀ i j, i < (groupKeys rows).length → j < ts.length →
      optLe (sbCellAt F.lower i j) (sbCellAt F.upper i j) := by
  obtain ⟨reps, _, _, R⟩ := C18_script_refines metric cfg mode rows ts p g st hne hg F st1 h
  intro i j hi hj
  have := R.ci i j hi hj
  rw [hm] at this
  have e1 := congrArg Prod.fst this
  have e2 := congrArg Prod.snd this
  simp only at e1 e2
  rw [e1, e2]
  exact c18s_ciComponent_ordered_quantile p.nrm p.pow15 _ _ p.alpha h0 h1

/-- **C18 (ordered, BC)** with lawful normal oracles (monotone cdf / ppf, cdf ≥ 0, ppf finite inside
`(0,1)`) and `0 < alpha < 1`.  (BCa: `C13_ordered_bca` gives it per component on the branch
`a (z0 + z_alpha) < 1`; beyond the pole the formula itself is unordered.) -/
theorem C18_script_ordered_bc (metric : SbMetric) (cfg : Cfg) (mode : NormMode)
    (rows : List SbRow) (ts : List ERat) (p : SbBootParams) (g : GScores) (st : RngState)
    (hne : rows ≠ []) (hg : SbObjectOf cfg rows g) (hm : p.method = .bc) (hlaw : p.nrm.Lawful)
    (h0 : 0 < p.alpha) (h1 : p.alpha < 1) (F : SbFrames) (st1 : RngState)
    (h : sbScriptFrom metric mode (groupKeys rows) ts p g st = (.ok F, st1)) :
    ∀ i j, i < (groupKeys rows).length → j < ts.length →
      optLe (sbCellAt F.lower i j) (sbCellAt F.upper i j) := by
  obtain ⟨reps, _, _, R⟩ := C18_script_refines metric cfg mode rows ts p g st hne hg F st1 h
  intro i j hi hj
  have := R.ci i j hi hj
  rw [hm] at this
  have e1 := congrArg Prod.fst this
  have e2 := congrArg Prod.snd this
  simp only at e1 e2
  rw [e1, e2]
  exact c18s_ciComponent_ordered_bc p.nrm hlaw p.pow15 _ _ p.alpha h0 h1

/-! ### the interval belongs to the reported value -/

/-- **C18 (same quantity, end to end).** `by_overall`, a cell whose un-normalised entry is `e` and
whose column has the overall metric `d > 0`: the reported value is `e / d` and the reported interval
is the interval of the RAW script-driven replicates around `e`, divided by the same `d` — for
quantile and BC unconditionally, for BCa under the homogeneity of the `** 1.5` oracle
(`C18_ci_same_quantity`).  Without normalisation the interval is the raw interval around the raw
value. -/
theorem C18_script_same_quantity (metric : SbMetric) (cfg : Cfg) (rows : List SbRow)
    (ts : List ERat) (p : SbBootParams) (g : GScores) (st : RngState) (hne : rows ≠ [])
    (hg : SbObjectOf cfg rows g) (F : SbFrames) (st1 : RngState)
    (h : sbScriptFrom metric .byOverall (groupKeys rows) ts p g st = (.ok F, st1)) :
    ∃ reps, gDrawMapped g p.cfg (sbGroupMetric metric ts) p.nbSamples st = (.ok reps, st1) ∧
      ∀ i j (hi : i < (groupKeys rows).length) (hj : j < ts.length) (e d : ℚ),
        sbEntry metric cfg rows (groupKeys rows)[i] ts[j] = some e →
        sbOverall metric cfg rows ts[j] = some d → 0 < d →
        (p.method = .bca → ∀ x, p.pow15 ((1 / d) * (1 / d) * x) = (1 / d) * (1 / d) * (1 / d) * p.pow15 x) →
        sbCellAt F.values i j = some (e / d) ∧
        (sbCellAt F.lower i j, sbCellAt F.upper i j) =
          ((bootstrapCI p.nrm p.pow15 p.method (sbRepsCol reps i j) e p.alpha).1.map (· / d),
           (bootstrapCI p.nrm p.pow15 p.method (sbRepsCol reps i j) e p.alpha).2.map (· / d)) := by
  obtain ⟨reps, hd, _, R⟩ := C18_script_refines metric cfg .byOverall rows ts p g st hne hg F st1 h
  refine ⟨reps, hd, ?_⟩
  intro i j hi hj e d he hov hpos hp15
  have hv : sbCellAt F.values i j = some (e / d) := by
    rw [R.cell i j hi hj]
    simp only [sbCellVal, normEntry, he, hov, divNorm, ne_of_gt hpos, if_false, Option.map_some]
  refine ⟨hv, ?_⟩
  rw [R.sbci i j hi hj (e / d) hv, hov]
  exact C18_ci_same_quantity p.nrm p.pow15 p.method _ e d p.alpha hpos hp15

theorem C18_script_none_quantity (metric : SbMetric) (cfg : Cfg) (rows : List SbRow)
    (ts : List ERat) (p : SbBootParams) (g : GScores) (st : RngState) (hne : rows ≠ [])
    (hg : SbObjectOf cfg rows g) (F : SbFrames) (st1 : RngState)
    (h : sbScriptFrom metric .none (groupKeys rows) ts p g st = (.ok F, st1)) :
    ∃ reps, gDrawMapped g p.cfg (sbGroupMetric metric ts) p.nbSamples st = (.ok reps, st1) ∧
      ∀ i j (hi : i < (groupKeys rows).length) (hj : j < ts.length) (e : ℚ),
        sbEntry metric cfg rows (groupKeys rows)[i] ts[j] = some e →
        sbCellAt F.values i j = some e ∧
        (sbCellAt F.lower i j, sbCellAt F.upper i j) =
          bootstrapCI p.nrm p.pow15 p.method (sbRepsCol reps i j) e p.alpha := by
  obtain ⟨reps, hd, _, R⟩ := C18_script_refines metric cfg .none rows ts p g st hne hg F st1 h
  refine ⟨reps, hd, ?_⟩
  intro i j hi hj e he
  have hv : sbCellAt F.values i j = some e := by
    rw [R.cell i j hi hj]
    simp only [sbCellVal, normEntry, he]
  exact ⟨hv, by rw [R.sbci i j hi hj e hv]; rfl⟩

/-! ### NaN -/

/-- **C18 (NaN limits).** In every cell `lower` is NaN iff `upper` is; and where the reported value
is a number, the limits are NaN EXACTLY when the component has no finite (normalised) replicate —
e.g. a group that has no row of the class a rate is conditioned on in any of the samples. -/
theorem C18_script_nan (metric : SbMetric) (cfg : Cfg) (mode : NormMode) (rows : List SbRow)
    (ts : List ERat) (p : SbBootParams) (g : GScores) (st : RngState) (hne : rows ≠ [])
    (hg : SbObjectOf cfg rows g) (F : SbFrames) (st1 : RngState)
    (h : sbScriptFrom metric mode (groupKeys rows) ts p g st = (.ok F, st1)) :
    ∃ reps, gDrawMapped g p.cfg (sbGroupMetric metric ts) p.nbSamples st = (.ok reps, st1) ∧
      ∀ i j (_ : i < (groupKeys rows).length) (hj : j < ts.length),
        (sbCellAt F.lower i j = none ↔ sbCellAt F.upper i j = none) ∧
        (∀ e, sbCellAt F.values i j = some e →
          (sbCellAt F.lower i j = none ↔
            (sbRepsNorm mode (sbRepsCol reps i j) (sbOverall metric cfg rows ts[j])).filterMap id = [])) ∧
        ((sbRepsNorm mode (sbRepsCol reps i j) (sbOverall metric cfg rows ts[j])).filterMap id = [] →
          sbCellAt F.lower i j = none ∧ sbCellAt F.upper i j = none) := by
  obtain ⟨reps, hd, _, R⟩ := C18_script_refines metric cfg mode rows ts p g st hne hg F st1 h
  refine ⟨reps, hd, ?_⟩
  intro i j hi hj
  have hc := R.ci i j hi hj
  have h1 := congrArg Prod.fst hc
  have h2 := congrArg Prod.snd hc
  simp only at h1 h2
  rw [h1, h2]
  cases hv : sbCellAt F.values i j with
  | some e =>
    obtain ⟨n1, n2⟩ := c18s_bootstrapCI_nan p.nrm p.pow15 p.method
      (sbRepsNorm mode (sbRepsCol reps i j) (sbOverall metric cfg rows ts[j])) e p.alpha
    simp only [ciComponent]
    refine ⟨by rw [n1, n2], ?_, fun hnil => ⟨n1.mpr hnil, n2.mpr hnil⟩⟩
    intro e' he'
    exact n1
  | none =>
    cases hm : p.method with
    | quantile =>
      obtain ⟨n1, n2⟩ := c18s_bootstrapCI_nan p.nrm p.pow15 .quantile
        (sbRepsNorm mode (sbRepsCol reps i j) (sbOverall metric cfg rows ts[j])) 0 p.alpha
      simp only [ciComponent]
      exact ⟨by rw [n1, n2], fun e' he' => (by cases he'), fun hnil => ⟨n1.mpr hnil, n2.mpr hnil⟩⟩
    | bc =>
      simp only [ciComponent]
      exact ⟨trivial, fun e' he' => (by cases he'), fun _ => ⟨trivial, trivial⟩⟩
    | bca =>
      simp only [ciComponent]
      exact ⟨trivial, fun e' he' => (by cases he'), fun _ => ⟨trivial, trivial⟩⟩

/-! ### in-support scripts -/

/-- **C18 / C12 (the replicates of an in-support run).** Non-empty frame, runnable configuration, a
script on which the run is `ok` (every answer lies in the support of its request and the script does
not run out): the replicate array is the group metric of `nb_samples` samples, each of which carries
the object's group list and flags, is sorted, and consists of `(score, group)` pairs of the data's
same class — so entry `[a, i, j]` is the metric of the matrix counted, by the documented decision
rule, on the rows of sample `a` labelled with group `i`. -/
theorem C18_script_replicates (metric : SbMetric) (cfg : Cfg) (mode : NormMode) (rows : List SbRow)
    (ts : List ERat) (p : SbBootParams) (g : GScores) (st : RngState) (hne : rows ≠ [])
    (hg : SbObjectOf cfg rows g) (hc : SbCfgRunnable p.cfg)
    (hok : (sbScriptFrom metric mode (groupKeys rows) ts p g st).2.ok = true) :
    ∃ smps : List GScores, smps.length = p.nbSamples ∧
      gDrawMapped g p.cfg (sbGroupMetric metric ts) p.nbSamples st =
        (.ok (smps.map (sbGroupMetric metric ts)), gSampleStates g p.cfg p.nbSamples st) ∧
      ∀ smp ∈ smps, smp.groups = List.range (groupKeys rows).length ∧ smp.cfg = cfg ∧ GInv smp ∧
        (∀ q ∈ smp.pos, q ∈ g.pos) ∧ (∀ q ∈ smp.neg, q ∈ g.neg) ∧
        ∀ i j (_ : i < (groupKeys rows).length) (hj : j < ts.length),
          sbCellAt (sbGroupMetric metric ts smp) i j =
            (countCM (c12_filterGroup smp.pos i) (c12_filterGroup smp.neg i) 0 0 cfg ts[j]).toQ.sbMetric
              metric := by
  obtain ⟨smps, hl, hd, hall, hin⟩ := c18s_draw_spec g hg.inv' p.cfg (c18s_runnable hg hne hc)
    (sbGroupMetric metric ts) p.nbSamples st
  have hok' : (gSampleStates g p.cfg p.nbSamples st).ok = true := by
    simp only [sbScriptFrom, hd] at hok
    exact hok
  have hgcfg : g.cfg = cfg := (c12_TieEq.cfg hg).trans (sbObject_cfg cfg rows)
  refine ⟨smps, hl, hd, ?_⟩
  intro smp hsmp
  obtain ⟨h1, h2⟩ := hall smp hsmp
  obtain ⟨h3, h4, h5⟩ := hin hok' smp hsmp
  have hgr : smp.groups = List.range (groupKeys rows).length := by rw [h1, hg.groups_eq]
  refine ⟨hgr, h2.trans hgcfg, h3, h4, h5, ?_⟩
  intro i j hi hj
  rw [c18s_groupMetric_cell metric ts smp _ hgr i j hi hj,
    cm_eq_countCM_of_sorted _ (c12_groupScores_sorted h3 i).1 (c12_groupScores_sorted h3 i).2]
  show (countCM _ _ 0 0 smp.cfg ts[j]).toQ.sbMetric metric = _
  rw [h2, hgcfg]
  rfl

/-- **C18 (NaN values, in-support scripts).** `normalize` `None` or `by_overall`, runnable
configuration, an in-support script: wherever the reported value is NaN — the group has no row in the
class / decision the metric is conditioned on, or the overall metric is NaN — EVERY normalised
replicate of that component is NaN as well (a sample of the data cannot contain what the data lacks),
hence both limits are NaN.  This is what the implementation returns there (no finite replicate:
`nb_not_nan = 0`), so the model's convention for a NaN point estimate (`ciComponent`) is never
consulted on a component with a finite replicate.  (`by_min` is excluded: there the value is NaN as
soon as ANOTHER group's entry is, while the component's own replicates are finite.) -/
theorem C18_script_nan_value (metric : SbMetric) (cfg : Cfg) (mode : NormMode) (rows : List SbRow)
    (ts : List ERat) (p : SbBootParams) (g : GScores) (st : RngState) (hne : rows ≠ [])
    (hg : SbObjectOf cfg rows g) (hc : SbCfgRunnable p.cfg) (hmode : mode ≠ .byMin)
    (hok : (sbScriptFrom metric mode (groupKeys rows) ts p g st).2.ok = true) :
    ∃ F reps, sbScriptFrom metric mode (groupKeys rows) ts p g st =
        (.ok F, gSampleStates g p.cfg p.nbSamples st) ∧
      gDrawMapped g p.cfg (sbGroupMetric metric ts) p.nbSamples st =
        (.ok reps, gSampleStates g p.cfg p.nbSamples st) ∧
      ∀ i j (_ : i < (groupKeys rows).length) (hj : j < ts.length),
        sbCellAt F.values i j = none →
        (sbRepsNorm mode (sbRepsCol reps i j) (sbOverall metric cfg rows ts[j])).filterMap id = [] ∧
        sbCellAt F.lower i j = none ∧ sbCellAt F.upper i j = none := by
  obtain ⟨smps, hl, hd, hfacts⟩ := C18_script_replicates metric cfg mode rows ts p g st hne hg hc hok
  have hrun : sbScriptFrom metric mode (groupKeys rows) ts p g st =
      (.ok (sbFramesOf p mode (groupKeys rows) ts (sbGroupMetric metric ts g)
        (sbOverallMetric metric ts g) (smps.map (sbGroupMetric metric ts))),
       gSampleStates g p.cfg p.nbSamples st) := by simp only [sbScriptFrom, hd]
  refine ⟨_, _, hrun, hd, ?_⟩
  obtain ⟨reps', hd', _, R⟩ := C18_script_refines metric cfg mode rows ts p g st hne hg _ _ hrun
  have hreps : reps' = smps.map (sbGroupMetric metric ts) := by
    rw [hd] at hd'
    simp only [Prod.mk.injEq, Except.ok.injEq] at hd'
    exact hd'.1.symm
  subst hreps
  obtain ⟨repsN, hdN, hnan⟩ := C18_script_nan metric cfg mode rows ts p g st hne hg _ _ hrun
  have hrepsN : repsN = smps.map (sbGroupMetric metric ts) := by
    rw [hd] at hdN
    simp only [Prod.mk.injEq, Except.ok.injEq] at hdN
    exact hdN.1.symm
  subst hrepsN
  intro i j hi hj hv
  have hgcfg : g.cfg = cfg := (c12_TieEq.cfg hg).trans (sbObject_cfg cfg rows)
  -- the raw entry of the data, as a metric of the object's group matrix
  have hentry : sbEntry metric cfg rows (groupKeys rows)[i] ts[j] =
      ((g.groupScores i).cm ts[j]).toQ.sbMetric metric := by
    rw [c12_tieEq_groupScores hg, sbObject_groupCM cfg rows i hi]
    rfl
  -- a NaN entry of the data is NaN in every sample
  have hraw : sbEntry metric cfg rows (groupKeys rows)[i] ts[j] = none →
      ∀ smp ∈ smps, sbCellAt (sbGroupMetric metric ts smp) i j = none := by
    intro he smp hsmp
    obtain ⟨hgr, hcf, hinv, hp, hn, _⟩ := hfacts smp hsmp
    rw [c18s_groupMetric_cell metric ts smp _ hgr i j hi hj]
    rw [hentry] at he
    exact c18s_metric_nan_mono _ _ (c18s_group_cm_dominated g smp hg.inv' hinv (hcf.trans hgcfg.symm)
      hp hn i ts[j]) metric he
  have hcol : sbRepsCol (smps.map (sbGroupMetric metric ts)) i j =
      smps.map fun smp => sbCellAt (sbGroupMetric metric ts smp) i j := by
    simp only [sbRepsCol, List.map_map, Function.comp_def]
  have hnil : (sbRepsNorm mode (sbRepsCol (smps.map (sbGroupMetric metric ts)) i j)
      (sbOverall metric cfg rows ts[j])).filterMap id = [] := by
    rw [R.cell i j hi hj] at hv
    rw [hcol]
    cases mode with
    | byMin => exact absurd rfl hmode
    | none =>
      simp only [sbCellVal, normEntry] at hv
      simp only [sbRepsNorm]
      exact (c18s_filterMap_map_nil _ _).mpr (hraw hv)
    | byOverall =>
      simp only [sbCellVal, normEntry] at hv
      simp only [sbRepsNorm, List.map_map, Function.comp_def]
      rw [c18s_filterMap_map_nil]
      intro smp hsmp
      cases hov : sbOverall metric cfg rows ts[j] with
      | none => rfl
      | some d =>
        rw [hov] at hv
        have he : sbEntry metric cfg rows (groupKeys rows)[i] ts[j] = none := by
          cases hen : sbEntry metric cfg rows (groupKeys rows)[i] ts[j] with
          | none => rfl
          | some e =>
            rw [hen] at hv
            simp only [divNorm] at hv
            split at hv <;> cases hv
        rw [hraw he smp hsmp]
        simp only [divNorm]
        split <;> rfl
  exact ⟨hnil, (hnan i j hi hj).2.2 hnil⟩

/-- the two theorems for `showbias` itself (the model's stably sorted object) -/
theorem C18_script_total_top (metric : SbMetric) (cfg : Cfg) (mode : NormMode) (rows : List SbRow)
    (ts : List ERat) (p : SbBootParams) (st : RngState) (hne : rows ≠ [])
    (hc : SbCfgRunnable p.cfg) :
    ∃ F, showbiasScript metric cfg mode rows ts p st =
        (.ok F, gSampleStates (sbObject cfg rows) p.cfg p.nbSamples st) ∧
      F.keys = groupKeys rows ∧ F.cols = ts ∧
      SbShape (groupKeys rows).length ts.length F.values ∧
      SbShape (groupKeys rows).length ts.length F.lower ∧
      SbShape (groupKeys rows).length ts.length F.upper := by
  obtain ⟨smps, _, _, hrun⟩ := C18_script_total metric cfg mode rows ts p _ st hne
    (SbObjectOf.self cfg rows) hc
  have hrun' : showbiasScript metric cfg mode rows ts p st =
      sbScriptFrom metric mode (groupKeys rows) ts p (sbObject cfg rows) st := by
    unfold showbiasScript
    rw [if_neg hne]
  exact ⟨_, hrun'.trans hrun, C18_script_shape metric cfg mode rows ts p _ st (SbObjectOf.self cfg rows) _ _ hrun⟩

/-! ### Non-vacuity: a concrete frame, script and run -/

/-- two groups (keys `[0]`, `[1]`), five rows; group `[1]` has no positive row -/
def c18s_exRows : List SbRow :=
  [⟨[1], false, 1 / 2⟩, ⟨[0], true, 3 / 4⟩, ⟨[0], false, 1 / 4⟩, ⟨[0], true, 1 / 4⟩, ⟨[1], false, 1⟩]

def c18s_exParams (m : BootMethod) : SbBootParams :=
  ⟨⟨.replacement, .byLabel, false⟩, 2, m, 1 / 2, Normal.toy, fun _ => 0⟩

/-- two `bootstrap_sample` calls, stratified by label: each asks for 2 positive and 3 negative
indices with replacement -/
def c18s_exScript : List (List ℕ) := [[0, 1], [0, 1, 2], [1, 1], [2, 2, 0]]

/-- the hypotheses of the theorems hold together: non-empty frame, an admissible object (the
model's own), a runnable configuration, the quantile method with `0 ≤ alpha ≤ 1`, lawful oracles
with `0 < alpha < 1` -/
example : c18s_exRows ≠ [] ∧ SbObjectOf ⟨.pos, .pos⟩ c18s_exRows (sbObject ⟨.pos, .pos⟩ c18s_exRows) ∧
    SbCfgRunnable (c18s_exParams .quantile).cfg ∧ (c18s_exParams .quantile).method = .quantile ∧
    (0 : ℚ) ≤ (c18s_exParams .quantile).alpha ∧ (c18s_exParams .quantile).alpha ≤ 1 ∧
    (c18s_exParams .bc).nrm.Lawful ∧ (0 : ℚ) < (c18s_exParams .bc).alpha ∧
    (c18s_exParams .bc).alpha < 1 := by
  refine ⟨by simp [c18s_exRows], SbObjectOf.self _ _, ⟨rfl, Or.inl rfl, by simp [c18s_exParams]⟩, rfl,
    ?_, ?_, Normal.toy_lawful, ?_, ?_⟩ <;> norm_num [c18s_exParams]

/-- `SbObjectOf` is satisfied by every admissible order, not only by the model's own object
(`c12_tieEq_of_admissible`; `c12_tieAB` is an instance with a tied block in which two admissible
orders differ) -/
example (g : GScores) (hp : c12_Admissible (sbPosPairs c18s_exRows) g.pos)
    (hn : c12_Admissible (sbNegPairs c18s_exRows) g.neg) (hc : g.cfg = ⟨.pos, .pos⟩)
    (hgr : g.groups = (sbObject ⟨.pos, .pos⟩ c18s_exRows).groups) :
    SbObjectOf ⟨.pos, .pos⟩ c18s_exRows g :=
  c12_tieEq_of_admissible _ _ _ none g hp hn hc hgr

/-- the run exists (by the totality theorem, for any script) … -/
example : ∃ F, showbiasScript .tpr ⟨.pos, .pos⟩ .byOverall c18s_exRows [.fin (1 / 2)]
    (c18s_exParams .quantile) (RngState.init c18s_exScript) =
      (.ok F, gSampleStates (sbObject ⟨.pos, .pos⟩ c18s_exRows) (c18s_exParams .quantile).cfg 2
        (RngState.init c18s_exScript)) ∧ F.keys = [[0], [1]] := by
  obtain ⟨F, h, hk, _⟩ := C18_script_total_top .tpr ⟨.pos, .pos⟩ .byOverall c18s_exRows [.fin (1 / 2)]
    (c18s_exParams .quantile) (RngState.init c18s_exScript) (by simp [c18s_exRows])
    ⟨rfl, Or.inl rfl, by simp [c18s_exParams]⟩
  exact ⟨F, h, by rw [hk]; decide +kernel⟩

end SA
