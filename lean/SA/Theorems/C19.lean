/-
C19 — a `FraudScores` object is a `Scores` object with pos=genuines, neg=frauds, the
translated score class and `equal_class = pos`, guarded by a `[0, 1]` range validation.
Property theorems only; the proofs are short because the model is a thin wrapper — the
content is that the wrapper adds nothing but the validation.
-/
import SA.Spec.C19
import SA.Theorems.C01

namespace SA
open Spec.C19

/-! ### helper lemmas -/

theorem outOfRange_sortQ (l : List Rat) : outOfRange (sortQ l) = outOfRange l := by
  unfold outOfRange
  rw [(sortQ_perm l).any_eq, (sortQ_perm l).any_eq]

theorem anyOutside_eq (g f : List Rat) : anyOutside g f = (outOfRange g || outOfRange f) := by
  unfold anyOutside outOfRange
  rw [Bool.eq_iff_iff]
  simp only [List.any_eq_true, List.mem_append, Bool.or_eq_true, decide_eq_true_eq, gt_iff_lt]
  constructor
  · rintro ⟨x, hx | hx, h | h⟩
    · exact Or.inl (Or.inl ⟨x, hx, h⟩)
    · exact Or.inl (Or.inr ⟨x, hx, h⟩)
    · exact Or.inr (Or.inl ⟨x, hx, h⟩)
    · exact Or.inr (Or.inr ⟨x, hx, h⟩)
  · rintro ((⟨x, hx, h⟩ | ⟨x, hx, h⟩) | (⟨x, hx, h⟩ | ⟨x, hx, h⟩))
    · exact ⟨x, Or.inl hx, Or.inl h⟩
    · exact ⟨x, Or.inl hx, Or.inr h⟩
    · exact ⟨x, Or.inr hx, Or.inl h⟩
    · exact ⟨x, Or.inr hx, Or.inr h⟩

/-- The constructor in closed form: validation of the inputs as given (the sort in between
does not matter), then the plain `Scores` constructor. -/
theorem FraudScores.make_eq (g f : List Rat) (eg ef : Nat) (sc : DocLabel) :
    FraudScores.make g f eg ef sc =
      if anyOutside g f then .error .valueError
      else .ok (Scores.make g f eg ef ⟨docToBinary sc, .pos⟩ false) := by
  simp only [FraudScores.make, Scores.make, Bool.false_eq_true, if_false, docToBinary,
    outOfRange_sortQ, anyOutside_eq]
  cases outOfRange g <;> cases outOfRange f <;> rfl

/-! ### C19 (refinement) -/

/-- **C19 (refines).** Whenever construction succeeds, the object built IS the `Scores`
object with pos=genuines, neg=frauds, the same easy counts, the translated score class and
`equal_class = pos` (as an equality of objects: same held arrays, counts and flags). -/
theorem C19_refines (g f : List Rat) (eg ef : Nat) (sc : DocLabel) (s : Scores)
    (h : FraudScores.make g f eg ef sc = .ok s) :
    s = Scores.make g f eg ef ⟨docToBinary sc, .pos⟩ false := by
  rw [FraudScores.make_eq] at h
  split at h
  · cases h
  · exact (Except.ok.inj h).symm

/-- Corollary: every confusion matrix (any threshold incl. ±inf) coincides. -/
theorem C19_refines_cm (g f : List Rat) (eg ef : Nat) (sc : DocLabel) (s : Scores)
    (h : FraudScores.make g f eg ef sc = .ok s) (t : ERat) :
    s.cm t = (Scores.make g f eg ef ⟨docToBinary sc, .pos⟩ false).cm t := by
  rw [C19_refines g f eg ef sc s h]

/-- Corollary: threshold setting coincides for every metric, method, target and `nextafter`
oracle — including the error branch (empty relevant array). -/
theorem C19_refines_thresholdAt (g f : List Rat) (eg ef : Nat) (sc : DocLabel) (s : Scores)
    (h : FraudScores.make g f eg ef sc = .ok s) (u : Ulp) (metric : Metric) (r : Rat)
    (m : Method) :
    s.thresholdAt u metric r m =
      (Scores.make g f eg ef ⟨docToBinary sc, .pos⟩ false).thresholdAt u metric r m := by
  rw [C19_refines g f eg ef sc s h]

/-- Corollary: `swap()` coincides. -/
theorem C19_refines_swap (g f : List Rat) (eg ef : Nat) (sc : DocLabel) (s : Scores)
    (h : FraudScores.make g f eg ef sc = .ok s) :
    s.swap = (Scores.make g f eg ef ⟨docToBinary sc, .pos⟩ false).swap := by
  rw [C19_refines g f eg ef sc s h]

/-- Corollary (with C01): the matrix of a `FraudScores` object is the count by the decision
rule "accept iff score >= t" (`score_class = genuine`) resp. "accept iff score <= t"
(`score_class = fraud`), genuines being the positives; easy genuines are added to TP and easy
frauds to TN. -/
theorem C19_cm_counts (g f : List Rat) (eg ef : Nat) (sc : DocLabel) (s : Scores)
    (h : FraudScores.make g f eg ef sc = .ok s) (t : ERat) :
    s.cm t = countCM g f eg ef ⟨docToBinary sc, .pos⟩ t := by
  rw [C19_refines_cm g f eg ef sc s h, C01_cells]

/-! ### C19 (validation) -/

/-- **C19 (validates).** Construction fails — with ValueError — iff some genuine or fraud
score is `< 0` or `> 1` (decidable predicate `anyOutside` on the inputs as given). -/
theorem C19_validates (g f : List Rat) (eg ef : Nat) (sc : DocLabel) :
    FraudScores.make g f eg ef sc = .error .valueError ↔ anyOutside g f = true := by
  rw [FraudScores.make_eq]
  constructor
  · intro h
    by_cases ha : anyOutside g f = true
    · exact ha
    · simp only [ha] at h
      cases h
  · intro ha
    simp only [ha, if_true]

/-- The other side: construction succeeds iff every score is in `[0, 1]`; no third outcome
(the only error the constructor can produce is the ValueError above). -/
theorem C19_validates_ok (g f : List Rat) (eg ef : Nat) (sc : DocLabel) :
    (∃ s, FraudScores.make g f eg ef sc = .ok s) ↔ anyOutside g f = false := by
  rw [FraudScores.make_eq]
  constructor
  · rintro ⟨s, h⟩
    by_cases ha : anyOutside g f = true
    · simp only [ha, if_true] at h
      cases h
    · simpa using ha
  · intro ha
    exact ⟨Scores.make g f eg ef ⟨docToBinary sc, .pos⟩ false, by
      simp only [ha, Bool.false_eq_true, if_false]⟩

/-- `anyOutside` says what it should: some member of either list is `< 0` or `> 1`. -/
theorem C19_validates_pointwise (g f : List Rat) :
    anyOutside g f = true ↔ ∃ x, (x ∈ g ∨ x ∈ f) ∧ (x < 0 ∨ 1 < x) := by
  simp only [anyOutside, List.any_eq_true, List.mem_append, Bool.or_eq_true, decide_eq_true_eq]

/-- Values exactly `0` and `1` are accepted (closed interval). -/
theorem C19_validates_closed (eg ef : Nat) (sc : DocLabel) :
    ∃ s, FraudScores.make [0, 1] [1, 0] eg ef sc = .ok s :=
  (C19_validates_ok _ _ eg ef sc).mpr (by decide +kernel)

/-- The held arrays of a constructed object lie in `[0, 1]`. -/
theorem C19_held_in_range (g f : List Rat) (eg ef : Nat) (sc : DocLabel) (s : Scores)
    (h : FraudScores.make g f eg ef sc = .ok s) :
    ∀ x, x ∈ s.pos ∨ x ∈ s.neg → 0 ≤ x ∧ x ≤ 1 := by
  have hok : anyOutside g f = false := (C19_validates_ok g f eg ef sc).mp ⟨s, h⟩
  have hs := C19_refines g f eg ef sc s h
  intro x hx
  have hx' : x ∈ g ∨ x ∈ f := by
    subst hs
    simp only [Scores.make, Bool.false_eq_true, if_false] at hx
    rcases hx with hx | hx
    · exact Or.inl ((sortQ_perm g).mem_iff.mp hx)
    · exact Or.inr ((sortQ_perm f).mem_iff.mp hx)
  have hnot : ¬ (x < 0 ∨ 1 < x) := by
    intro hc
    have := (C19_validates_pointwise g f).mpr ⟨x, hx', hc⟩
    rw [hok] at this
    cases this
  constructor
  · exact Rat.not_lt.mp (fun hc => hnot (Or.inl hc))
  · exact Rat.not_lt.mp (fun hc => hnot (Or.inr hc))

/-! ### C19 (labels) -/

/-- **C19 (labels).** genuine↔pos, fraud↔neg and the two translations are mutually inverse. -/
theorem C19_labels_inverse :
    (∀ l : DocLabel, binaryToDoc (docToBinary l) = l) ∧
    (∀ b : Label, docToBinary (binaryToDoc b) = b) ∧
    docToBinary .genuine = .pos ∧ docToBinary .fraud = .neg := by
  refine ⟨?_, ?_, rfl, rfl⟩
  · intro l; cases l <;> rfl
  · intro b; cases b <;> rfl

/-! ### C19 (from_labels, aliases) -/

/-- **C19 (from_labels).** `from_labels` is the constructor applied to the scores whose label
equals the genuine label (genuines) and to all others (frauds), in the order given; when it
succeeds the object is the one `Scores.from_labels` builds with `pos_label = genuine_label`. -/
theorem C19_from_labels (samples : List (Bool × Rat)) (eg ef : Nat) (sc : DocLabel) :
    FraudScores.fromLabels samples eg ef sc =
        FraudScores.make ((samples.filter (fun s => s.1)).map (·.2))
          ((samples.filter (fun s => !s.1)).map (·.2)) eg ef sc ∧
    ∀ s, FraudScores.fromLabels samples eg ef sc = .ok s →
      s = Scores.fromLabels samples eg ef ⟨docToBinary sc, .pos⟩ false := by
  refine ⟨rfl, ?_⟩
  intro s h
  exact C19_refines _ _ eg ef sc s h

/-- **C19 (aliases).** `genuines` / `frauds` are the held positive / negative arrays, which are
the sorted inputs; easy counts and flags are passed through (`equal_class = pos`). -/
theorem C19_aliases (g f : List Rat) (eg ef : Nat) (sc : DocLabel) (s : Scores)
    (h : FraudScores.make g f eg ef sc = .ok s) :
    FraudScores.genuines s = s.pos ∧ FraudScores.frauds s = s.neg ∧
    s.pos = sortQ g ∧ s.neg = sortQ f ∧
    s.pos.Pairwise (· ≤ ·) ∧ s.neg.Pairwise (· ≤ ·) ∧
    s.easyPos = eg ∧ s.easyNeg = ef ∧ s.cfg = ⟨docToBinary sc, .pos⟩ := by
  have hs := C19_refines g f eg ef sc s h
  subst hs
  simp only [FraudScores.genuines, FraudScores.frauds, Scores.make, Bool.false_eq_true, if_false,
    true_and]
  exact ⟨sortQ_pairwise g, sortQ_pairwise f, trivial⟩

/-! ### The executable spec clauses hold of the model -/

/-- did the model raise? -/
def FraudScores.raised (r : Except Err Scores) : Bool :=
  match r with
  | .error _ => true
  | .ok _ => false

theorem C19_spec_valid (g f : List Rat) (eg ef : Nat) (sc : DocLabel) :
    validOK g f (FraudScores.raised (FraudScores.make g f eg ef sc)) = true := by
  rw [FraudScores.make_eq]
  cases h : anyOutside g f <;> simp [validOK, FraudScores.raised, h]

theorem C19_spec_cm (g f : List Rat) (eg ef : Nat) (sc : DocLabel) (s : Scores)
    (h : FraudScores.make g f eg ef sc = .ok s) (t : ERat) :
    cmOK g f eg ef sc t (s.cm t) = true := by
  rw [C19_refines_cm g f eg ef sc s h]
  exact C01_spec_cells g f eg ef (cfgOf sc) t

theorem C19_spec_alias (g f : List Rat) (eg ef : Nat) (sc : DocLabel) (s : Scores)
    (h : FraudScores.make g f eg ef sc = .ok s) :
    aliasOK g f (FraudScores.genuines s) (FraudScores.frauds s) s.pos s.neg = true := by
  obtain ⟨h1, h2, h3, h4, _⟩ := C19_aliases g f eg ef sc s h
  simp [aliasOK, h1, h2, h3, h4]

theorem C19_spec_flags (g f : List Rat) (eg ef : Nat) (sc : DocLabel) (s : Scores)
    (h : FraudScores.make g f eg ef sc = .ok s) :
    flagsOK sc s.cfg.scoreClass s.cfg.equalClass = true := by
  obtain ⟨_, _, _, _, _, _, _, _, h9⟩ := C19_aliases g f eg ef sc s h
  simp [flagsOK, h9]

theorem C19_spec_labels :
    labelsOK (docToBinary .genuine) (docToBinary .fraud) (binaryToDoc .pos) (binaryToDoc .neg)
      = true := by decide

/-! ### Non-vacuity: the hypothesis `make = .ok s` is satisfiable (unsorted input, ties across
classes, boundary values, both score classes), and so is the failure branch. -/

example : ∃ s, FraudScores.make [1/2, 0, 1] [1, 1/4, 1/2] 2 3 .fraud = .ok s :=
  (C19_validates_ok _ _ 2 3 .fraud).mpr (by decide +kernel)

example : ∃ s, FraudScores.make [] [] 0 0 .genuine = .ok s :=
  (C19_validates_ok _ _ 0 0 .genuine).mpr (by decide +kernel)

example : FraudScores.make [1/2] [1/4, 9/8] 0 0 .genuine = .error .valueError :=
  (C19_validates _ _ 0 0 .genuine).mpr (by decide +kernel)

example : FraudScores.make [1/2, -1/1024] [1/4] 0 0 .fraud = .error .valueError :=
  (C19_validates _ _ 0 0 .fraud).mpr (by decide +kernel)

end SA
