/-
C20 — synthetic datasets hit their specified operating points and proportions
(`score_analysis/experimental/datasets.py`).

Oracle hypotheses are stated per theorem:
* `N.RightInv` : `Phi (PhiInv p) = p` for `0 < p < 1`   (rate ∘ threshold = id, from_metrics),
* `N.LeftInv`  : `PhiInv (Phi x) = x`                    (threshold ∘ rate = id),
* `rng.Lawful` : the generator returns what NumPy documents (a binomial draw is `≤ n`, `normal`
  returns `size` values, `shuffle` permutes, `binomial(1, p, n)` / `choice(4, n)` return `n`
  values in range).  `np.sqrt` needs no hypothesis.
-/
import SA.Spec.C20
import SA.Proofs.Bisect
import Mathlib.Tactic.Linarith
import Mathlib.Tactic.Ring
import Mathlib.Tactic.FieldSimp
import Mathlib.Tactic.Positivity

namespace SA
open Spec.C20

/-! ### oracle hypotheses -/

/-- `Phi (PhiInv p) = p` on `(0, 1)` -/
def StdNormal.RightInv (N : StdNormal) : Prop := ∀ p, 0 < p → p < 1 → N.Phi (N.PhiInv p) = p

/-- `PhiInv (Phi x) = x` -/
def StdNormal.LeftInv (N : StdNormal) : Prop := ∀ x, N.PhiInv (N.Phi x) = x

/-- a toy inverse pair (the theorems below are algebraic: any inverse pair will do) -/
def StdNormal.toy : StdNormal := ⟨fun x => x, fun p => p⟩

theorem StdNormal.toy_rightInv : StdNormal.toy.RightInv := fun _ _ _ => rfl
theorem StdNormal.toy_leftInv : StdNormal.toy.LeftInv := fun _ => rfl

structure SampleRng.Lawful (rng : SampleRng) : Prop where
  binomial_le : ∀ n p, rng.binomial n p ≤ n
  normalPos_len : ∀ loc sc k, (rng.normalPos loc sc k).length = k
  normalNeg_len : ∀ loc sc k, (rng.normalNeg loc sc k).length = k

structure BernRng.Lawful (rng : BernRng) : Prop where
  shuffle_perm : ∀ l, (rng.shuffle l).Perm l
  binomial1_len : ∀ p n, (rng.binomial1 p n).length = n
  binomial1_bin : ∀ p n, ∀ x ∈ rng.binomial1 p n, x ≤ 1
  choice4_len : ∀ p n, (rng.choice4 p n).length = n
  choice4_lt : ∀ p n, ∀ x ∈ rng.choice4 p n, x < 4

def SampleRng.toy : SampleRng :=
  ⟨fun n _ => n, fun loc _ k => List.replicate k loc, fun loc _ k => List.replicate k loc⟩

theorem SampleRng.toy_lawful : SampleRng.toy.Lawful :=
  ⟨fun _ _ => Nat.le_refl _, fun _ _ _ => List.length_replicate, fun _ _ _ => List.length_replicate⟩

def BernRng.toy : BernRng :=
  ⟨fun _ n => List.replicate n 0, fun _ n => List.replicate n 0, fun l => l⟩

theorem BernRng.toy_lawful : BernRng.toy.Lawful where
  shuffle_perm := fun l => List.Perm.refl l
  binomial1_len := fun _ _ => List.length_replicate
  binomial1_bin := by intro p n x hx; rw [List.eq_of_mem_replicate hx]; exact Nat.zero_le _
  choice4_len := fun _ _ => List.length_replicate
  choice4_lt := by intro p n x hx; rw [List.eq_of_mem_replicate hx]; exact Nat.succ_pos _

/-! ### location-scale forms -/

theorem StdNormal.cdf_ppf (N : StdNormal) (hN : N.RightInv) (loc scale p : ℚ) (hs : 0 < scale)
    (h0 : 0 < p) (h1 : p < 1) : N.cdf (N.ppf p loc scale) loc scale = p := by
  unfold StdNormal.cdf StdNormal.ppf
  have hs' : scale ≠ 0 := ne_of_gt hs
  have e : (loc + scale * N.PhiInv p - loc) / scale = N.PhiInv p := by
    field_simp
    ring
  rw [e]
  exact hN p h0 h1

theorem StdNormal.ppf_cdf (N : StdNormal) (hN : N.LeftInv) (loc scale x : ℚ) (hs : 0 < scale) :
    N.ppf (N.cdf x loc scale) loc scale = x := by
  unfold StdNormal.cdf StdNormal.ppf
  have hs' : scale ≠ 0 := ne_of_gt hs
  rw [hN]
  field_simp
  ring

theorem StdNormal.sf_isf (N : StdNormal) (hN : N.RightInv) (loc scale p : ℚ) (hs : 0 < scale)
    (h0 : 0 < p) (h1 : p < 1) : N.sf (N.isf p loc scale) loc scale = p := by
  unfold StdNormal.sf StdNormal.isf
  rw [N.cdf_ppf hN loc scale (1 - p) hs (by linarith) (by linarith)]
  ring

theorem StdNormal.isf_sf (N : StdNormal) (hN : N.LeftInv) (loc scale x : ℚ) (hs : 0 < scale) :
    N.isf (N.sf x loc scale) loc scale = x := by
  unfold StdNormal.sf StdNormal.isf
  have e : 1 - (1 - N.cdf x loc scale) = N.cdf x loc scale := by ring
  rw [e]
  exact N.ppf_cdf hN loc scale x hs

/-! ### C20: rates and thresholds are mutually inverse -/

/-- **C20 (inverse, FNR).** `fnr(threshold_at_fnr(r)) = r` for `0 < r < 1`
(needs `Phi ∘ PhiInv = id`, `sigma_pos > 0`). -/
theorem C20_inverse_fnr (N : StdNormal) (hN : N.RightInv) (d : NormalDataset)
    (hs : 0 < d.sigmaPos) (r : ℚ) (h0 : 0 < r) (h1 : r < 1) :
    d.fnr N (d.thresholdAtFnr N r) = r :=
  N.cdf_ppf hN _ _ r hs h0 h1

/-- **C20 (inverse, FPR).** `fpr(threshold_at_fpr(r)) = r` for `0 < r < 1`
(needs `Phi ∘ PhiInv = id`, `sigma_neg > 0`). -/
theorem C20_inverse_fpr (N : StdNormal) (hN : N.RightInv) (d : NormalDataset)
    (hs : 0 < d.sigmaNeg) (r : ℚ) (h0 : 0 < r) (h1 : r < 1) :
    d.fpr N (d.thresholdAtFpr N r) = r :=
  N.sf_isf hN _ _ r hs h0 h1

/-- **C20 (inverse, threshold from FNR).** `threshold_at_fnr(fnr(t)) = t` for every threshold
(needs `PhiInv ∘ Phi = id`, `sigma_pos > 0`). -/
theorem C20_inverse_thr_fnr (N : StdNormal) (hN : N.LeftInv) (d : NormalDataset)
    (hs : 0 < d.sigmaPos) (t : ℚ) : d.thresholdAtFnr N (d.fnr N t) = t :=
  N.ppf_cdf hN _ _ t hs

/-- **C20 (inverse, threshold from FPR).** `threshold_at_fpr(fpr(t)) = t` for every threshold
(needs `PhiInv ∘ Phi = id`, `sigma_neg > 0`). -/
theorem C20_inverse_thr_fpr (N : StdNormal) (hN : N.LeftInv) (d : NormalDataset)
    (hs : 0 < d.sigmaNeg) (t : ℚ) : d.thresholdAtFpr N (d.fpr N t) = t :=
  N.isf_sf hN _ _ t hs

/-- **C20 (inverse).** All four relations together. -/
theorem C20_inverse (N : StdNormal) (hR : N.RightInv) (hL : N.LeftInv) (d : NormalDataset)
    (hp : 0 < d.sigmaPos) (hn : 0 < d.sigmaNeg) :
    (∀ r, 0 < r → r < 1 → d.fnr N (d.thresholdAtFnr N r) = r) ∧
    (∀ r, 0 < r → r < 1 → d.fpr N (d.thresholdAtFpr N r) = r) ∧
    (∀ t, d.thresholdAtFnr N (d.fnr N t) = t) ∧
    (∀ t, d.thresholdAtFpr N (d.fpr N t) = t) :=
  ⟨fun r => C20_inverse_fnr N hR d hp r, fun r => C20_inverse_fpr N hR d hn r,
   C20_inverse_thr_fnr N hL d hp, C20_inverse_thr_fpr N hL d hn⟩

example : ∃ (N : StdNormal) (d : NormalDataset), N.RightInv ∧ N.LeftInv ∧ 0 < d.sigmaPos ∧
    0 < d.sigmaNeg :=
  ⟨StdNormal.toy, NormalDataset.make 1, StdNormal.toy_rightInv, StdNormal.toy_leftInv,
    by decide +kernel, by decide +kernel⟩

/-! ### C20: roc() -/

/-- **C20 (roc consistent).** Whenever `roc` returns, its rates are the analytic FNR and FPR at
its own thresholds (no oracle hypothesis needed), one rate per requested point. -/
theorem C20_roc_consistent (N : StdNormal) (d : NormalDataset) (fnr fpr : Option (List ℚ))
    (R : ROC) (h : d.roc N fnr fpr = .ok R) :
    R.fnr = R.thresholds.map (d.fnr N) ∧ R.fpr = R.thresholds.map (d.fpr N) ∧
    (∀ f, fnr = some f → R.thresholds = f.map (d.thresholdAtFnr N)) ∧
    (∀ g, fpr = some g → R.thresholds = g.map (d.thresholdAtFpr N)) := by
  cases fnr with
  | none =>
    cases fpr with
    | none => simp [NormalDataset.roc] at h
    | some g =>
      simp only [NormalDataset.roc, Except.ok.injEq] at h
      subst h
      refine ⟨rfl, rfl, ?_, ?_⟩
      · intro f hf; cases hf
      · intro g' hg; cases hg; rfl
  | some f =>
    cases fpr with
    | some g => simp [NormalDataset.roc] at h
    | none =>
      simp only [NormalDataset.roc, Except.ok.injEq] at h
      subst h
      refine ⟨rfl, rfl, ?_, ?_⟩
      · intro f' hf; cases hf; rfl
      · intro g hg; cases hg

/-- **C20 (roc errors).** `roc` raises exactly when both or neither of `fnr`, `fpr` are given. -/
theorem C20_roc_errors (N : StdNormal) (d : NormalDataset) (fnr fpr : Option (List ℚ)) :
    (d.roc N fnr fpr = .error .rocNeither ↔ (fnr = none ∧ fpr = none)) ∧
    (d.roc N fnr fpr = .error .rocBoth ↔ (fnr.isSome ∧ fpr.isSome)) ∧
    ((∃ R, d.roc N fnr fpr = .ok R) ↔ (fnr.isSome ≠ fpr.isSome)) := by
  cases fnr <;> cases fpr <;> simp [NormalDataset.roc]

/-- **C20 (roc reproduces the requested rates).** With `Phi ∘ PhiInv = id` and points in `(0,1)`
the curve built from FNR points has exactly these FNRs; likewise for FPR points. -/
theorem C20_roc_points (N : StdNormal) (hN : N.RightInv) (d : NormalDataset)
    (hp : 0 < d.sigmaPos) (hn : 0 < d.sigmaNeg) (pts : List ℚ)
    (hpts : ∀ r ∈ pts, 0 < r ∧ r < 1) :
    (∃ R, d.roc N (some pts) none = .ok R ∧ R.fnr = pts) ∧
    (∃ R, d.roc N none (some pts) = .ok R ∧ R.fpr = pts) := by
  constructor
  · refine ⟨_, rfl, ?_⟩
    simp only [NormalDataset.rocOf, List.map_map]
    conv => rhs; rw [← List.map_id pts]
    apply List.map_congr_left
    intro r hr
    exact C20_inverse_fnr N hN d hp r (hpts r hr).1 (hpts r hr).2
  · refine ⟨_, rfl, ?_⟩
    simp only [NormalDataset.rocOf, List.map_map]
    conv => rhs; rw [← List.map_id pts]
    apply List.map_congr_left
    intro r hr
    exact C20_inverse_fpr N hN d hn r (hpts r hr).1 (hpts r hr).2

example : ∃ (N : StdNormal) (d : NormalDataset) (pts : List ℚ), N.RightInv ∧ 0 < d.sigmaPos ∧
    0 < d.sigmaNeg ∧ ∀ r ∈ pts, 0 < r ∧ r < 1 :=
  ⟨StdNormal.toy, NormalDataset.make 1, [1 / 2], StdNormal.toy_rightInv, by decide +kernel,
    by decide +kernel, by intro r hr; simp at hr; subst hr; constructor <;> norm_num⟩

/-! ### C20: from_metrics -/

theorem truncQ_of_nonneg (x : ℚ) (h : 0 ≤ x) : truncQ x = x.floor := by
  unfold truncQ; rw [if_pos h]

theorem one_le_floor_div (s : ℤ) (r : ℚ) (hs : 1 ≤ s) (h0 : 0 < r) (h1 : r < 1) :
    s ≤ ((s : ℚ) / r).floor := by
  rw [Rat.le_floor_iff, le_div_iff₀ h0]
  have : (1 : ℚ) ≤ (s : ℚ) := by exact_mod_cast hs
  nlinarith

/-- **C20 (from_metrics).** For rates in `(0,1)`, supports `≥ 1` and positive sigmas the
constructed model has `FNR(0) = fnr`, `FPR(0) = fpr` (needs `Phi ∘ PhiInv = id`),
`n = ⌊fnr_support / fnr⌋ + ⌊fpr_support / fpr⌋`, `p_pos = ⌊fnr_support / fnr⌋ / n`, at least
`fnr_support` positives and `fpr_support` negatives, the given sigmas and `score_class = pos`. -/
theorem C20_from_metrics (N : StdNormal) (hN : N.RightInv) (fnr fpr : ℚ) (s1 s2 : ℤ) (σp σn : ℚ)
    (hf0 : 0 < fnr) (hf1 : fnr < 1) (hp0 : 0 < fpr) (hp1 : fpr < 1) (hs1 : 1 ≤ s1) (hs2 : 1 ≤ s2)
    (hσp : 0 < σp) (hσn : 0 < σn) :
    ∃ d, NormalDataset.fromMetrics N fnr fpr s1 s2 σp σn = .ok d ∧
      d.fnr N 0 = fnr ∧ d.fpr N 0 = fpr ∧
      d.n = some (((s1 : ℚ) / fnr).floor + ((s2 : ℚ) / fpr).floor) ∧
      d.pPos = ((((s1 : ℚ) / fnr).floor : ℤ) : ℚ) /
        (((((s1 : ℚ) / fnr).floor + ((s2 : ℚ) / fpr).floor : ℤ)) : ℚ) ∧
      s1 ≤ ((s1 : ℚ) / fnr).floor ∧ s2 ≤ ((s2 : ℚ) / fpr).floor ∧
      d.sigmaPos = σp ∧ d.sigmaNeg = σn ∧ d.scoreClass = .pos := by
  have hk1 := one_le_floor_div s1 fnr hs1 hf0 hf1
  have hk2 := one_le_floor_div s2 fpr hs2 hp0 hp1
  have hq1 : (0 : ℚ) ≤ (s1 : ℚ) / fnr := by
    have : (0 : ℚ) ≤ (s1 : ℚ) := by exact_mod_cast (by omega : (0 : ℤ) ≤ s1)
    positivity
  have hq2 : (0 : ℚ) ≤ (s2 : ℚ) / fpr := by
    have : (0 : ℚ) ≤ (s2 : ℚ) := by exact_mod_cast (by omega : (0 : ℤ) ≤ s2)
    positivity
  have hn : ¬ (((s1 : ℚ) / fnr).floor + ((s2 : ℚ) / fpr).floor = 0) := by omega
  have hσp' : σp ≠ 0 := ne_of_gt hσp
  have hσn' : σn ≠ 0 := ne_of_gt hσn
  refine ⟨⟨-(N.PhiInv fnr) * σp, -(N.PhiInv (1 - fpr)) * σn, σp, σn,
    ((((s1 : ℚ) / fnr).floor : ℤ) : ℚ) / (((((s1 : ℚ) / fnr).floor + ((s2 : ℚ) / fpr).floor : ℤ)) : ℚ),
    some (((s1 : ℚ) / fnr).floor + ((s2 : ℚ) / fpr).floor), .pos⟩, ?_, ?_, ?_, rfl, rfl, hk1, hk2,
    rfl, rfl, rfl⟩
  · unfold NormalDataset.fromMetrics
    simp only [truncQ_of_nonneg _ hq1, truncQ_of_nonneg _ hq2]
    rw [if_neg (ne_of_gt hf0), if_neg (ne_of_gt hp0), if_neg hn]
  · show N.Phi ((0 - -(N.PhiInv fnr) * σp) / σp) = fnr
    have e : (0 - -(N.PhiInv fnr) * σp) / σp = N.PhiInv fnr := by
      field_simp
      ring
    rw [e]
    exact hN fnr hf0 hf1
  · show 1 - N.Phi ((0 - -(N.PhiInv (1 - fpr)) * σn) / σn) = fpr
    have e : (0 - -(N.PhiInv (1 - fpr)) * σn) / σn = N.PhiInv (1 - fpr) := by
      field_simp
      ring
    rw [e, hN (1 - fpr) (by linarith) (by linarith)]
    ring

example : ∃ (N : StdNormal) (fnr fpr : ℚ) (s1 s2 : ℤ) (σp σn : ℚ), N.RightInv ∧ 0 < fnr ∧ fnr < 1 ∧
    0 < fpr ∧ fpr < 1 ∧ 1 ≤ s1 ∧ 1 ≤ s2 ∧ 0 < σp ∧ 0 < σn :=
  ⟨StdNormal.toy, 1 / 2, 1 / 2, 1, 1, 1, 1, StdNormal.toy_rightInv, by norm_num, by norm_num,
    by norm_num, by norm_num, by norm_num, by norm_num, by norm_num, by norm_num⟩

/-! ### C20: sample() -/

/-- **C20 (sample split).** For every response `k = rng.binomial(n, p)` of the generator
(`k ≤ n`) the sample holds `k` positive and `n - k` negative scores (`n` in total, namely the
sorted normal draws) and keeps the model's score direction. -/
theorem C20_sample_split (d : NormalDataset) (rng : SampleRng) (hr : rng.Lawful) (n : Option ℤ)
    (pPos : Option ℚ) (m : ℕ)
    (hm : d.pickN n = some (m : ℤ)) :
    ∃ s, d.sample rng n pPos = .ok s ∧
      s.pos.length = rng.binomial m (d.pickP pPos) ∧
      s.neg.length = m - rng.binomial m (d.pickP pPos) ∧
      s.pos.length + s.neg.length = m ∧
      s.cfg.scoreClass = d.scoreClass ∧ s.cfg.equalClass = .pos ∧
      s.easyPos = 0 ∧ s.easyNeg = 0 ∧
      s.pos.Perm (rng.normalPos d.muPos d.sigmaPos s.pos.length) ∧
      s.neg.Perm (rng.normalNeg d.muNeg d.sigmaNeg s.neg.length) := by
  have hk := hr.binomial_le m (d.pickP pPos)
  unfold NormalDataset.sample
  rw [hm]
  simp only [Int.toNat_natCast]
  have h1 : ¬ ((m : ℤ) < 0) := by omega
  have h2 : ¬ ((m : ℤ) - (rng.binomial m (d.pickP pPos) : ℤ) < 0) := by
    omega
  rw [if_neg h1, if_neg h2]
  have e : ((m : ℤ) - (rng.binomial m (d.pickP pPos) : ℤ)).toNat =
      m - rng.binomial m (d.pickP pPos) := by omega
  rw [e]
  refine ⟨_, rfl, ?_, ?_, ?_, rfl, rfl, rfl, rfl, ?_, ?_⟩
  · simp only [Scores.make, Bool.false_eq_true, if_false, length_sortQ, hr.normalPos_len]
  · simp only [Scores.make, Bool.false_eq_true, if_false, length_sortQ, hr.normalNeg_len]
  · simp only [Scores.make, Bool.false_eq_true, if_false, length_sortQ, hr.normalPos_len,
      hr.normalNeg_len]
    omega
  · simp only [Scores.make, Bool.false_eq_true, if_false, length_sortQ, hr.normalPos_len]
    exact sortQ_perm _
  · simp only [Scores.make, Bool.false_eq_true, if_false, length_sortQ, hr.normalNeg_len]
    exact sortQ_perm _

example : ∃ (d : NormalDataset) (rng : SampleRng) (n : Option ℤ) (m : ℕ), rng.Lawful ∧
    d.pickN n = some (m : ℤ) :=
  ⟨NormalDataset.make 1, SampleRng.toy, some 3, 3, SampleRng.toy_lawful, rfl⟩

/-- `sample` raises when neither the call nor the dataset provides `n`. -/
theorem C20_sample_none (d : NormalDataset) (rng : SampleRng) (pPos : Option ℚ) (h : d.n = none) :
    d.sample rng none pPos = .error .nNone := by
  unfold NormalDataset.sample; simp [NormalDataset.pickN, h]

/-! ### C20: Bernoulli sampling -/

theorem replicate_cells (a b c e : ℕ) :
    let L := List.replicate a 0 ++ (List.replicate b 1 ++ (List.replicate c 2 ++ List.replicate e 3))
    L.length = a + b + c + e ∧ (L.map (· % 2)).count 1 = b + e ∧ (L.map (· / 2)).count 1 = c + e ∧
    L.count 0 = a ∧ L.count 1 = b ∧ L.count 2 = c ∧ (∀ x ∈ L, x < 4) := by
  intro L
  refine ⟨?_, ?_, ?_, ?_, ?_, ?_, ?_⟩
  · simp [L]; omega
  · simp [L, List.count_replicate]
  · simp [L, List.count_replicate]
  · simp [L, List.count_replicate]
  · simp [L, List.count_replicate]
  · simp [L, List.count_replicate]
  · intro x hx
    simp [L] at hx
    omega

/-- **C20 (Bernoulli, non-random).** For `0 ≤ p ≤ 1` the non-random sample has `n` entries, all
0 or 1, exactly `⌊n p⌋` of them ones (and `n - ⌊n p⌋` zeros), for every shuffle. -/
theorem C20_bernoulli (rng : BernRng) (hr : rng.Lawful) (p : ℚ) (hp0 : 0 ≤ p) (hp1 : p ≤ 1)
    (selfN n : Option ℕ) (m : ℕ) (hm : resolveN n selfN = .ok m) :
    ∃ l, bernoulliSample rng p selfN n false = .ok l ∧ l.length = m ∧
      ((l.count 1 : ℕ) : ℤ) = ((m : ℚ) * p).floor ∧
      ((l.count 0 : ℕ) : ℤ) = (m : ℤ) - ((m : ℚ) * p).floor ∧
      (∀ x ∈ l, x = 0 ∨ x = 1) := by
  have hm0 : (0 : ℚ) ≤ (m : ℚ) := Nat.cast_nonneg m
  have hf0 : (0 : ℤ) ≤ ((m : ℚ) * p).floor := by
    rw [Rat.le_floor_iff]; simpa using mul_nonneg hm0 hp0
  have hf1 : ((m : ℚ) * p).floor ≤ (m : ℤ) := by
    have h1 : ((((m : ℚ) * p).floor : ℤ) : ℚ) ≤ (m : ℚ) * p := Rat.floor_le _
    have h2 : (m : ℚ) * p ≤ (m : ℚ) := by nlinarith
    have h3 : ((((m : ℚ) * p).floor : ℤ) : ℚ) ≤ ((m : ℤ) : ℚ) := by push_cast; linarith
    exact_mod_cast h3
  obtain ⟨k, hk⟩ := Int.eq_ofNat_of_zero_le hf0
  have hkm : k ≤ m := by omega
  unfold bernoulliSample
  rw [hm]
  simp only [Bool.false_eq_true, if_false]
  rw [hk]
  have hneg : ¬ ((m : ℤ) - (k : ℤ) < 0 ∨ (k : ℤ) < 0) := by omega
  rw [if_neg hneg]
  refine ⟨_, rfl, ?_, ?_, ?_, ?_⟩
  · rw [(hr.shuffle_perm _).length_eq]
    simp [repeatFrom]
    omega
  · rw [(hr.shuffle_perm _).count_eq]
    simp [repeatFrom, List.count_replicate]
  · rw [(hr.shuffle_perm _).count_eq]
    simp [repeatFrom, List.count_replicate]
    omega
  · intro x hx
    rw [(hr.shuffle_perm _).mem_iff] at hx
    simp [repeatFrom] at hx
    omega

/-- **C20 (Bernoulli, spec form).** The model's non-random sample satisfies the executable
clause with `eps = 0`. -/
theorem C20_spec_bernoulli (rng : BernRng) (hr : rng.Lawful) (p : ℚ) (hp0 : 0 ≤ p) (hp1 : p ≤ 1)
    (selfN n : Option ℕ) (m : ℕ) (hm : resolveN n selfN = .ok m) :
    ∃ l, bernoulliSample rng p selfN n false = .ok l ∧ bernoulliOK 0 m p l = true := by
  obtain ⟨l, hl, hlen, hc1, _, hbin⟩ := C20_bernoulli rng hr p hp0 hp1 selfN n m hm
  refine ⟨l, hl, ?_⟩
  have hfl := Rat.floor_le ((m : ℚ) * p)
  have hfl2 := Rat.lt_floor_add_one ((m : ℚ) * p)
  simp only [bernoulliOK, binaryAll, floorOK, hlen, Bool.and_eq_true, decide_eq_true_eq,
    List.all_eq_true, zero_mul, add_zero, sub_zero, true_and]
  refine ⟨?_, ?_, ?_⟩
  · intro x hx
    rcases hbin x hx with h | h <;> omega
  · rw [Int.cast_natCast] at *
    have : (((l.count 1 : ℕ) : ℤ) : ℚ) = ((((m : ℚ) * p).floor : ℤ) : ℚ) := by rw [hc1]
    push_cast at this
    linarith
  · have : (((l.count 1 : ℕ) : ℤ) : ℚ) = ((((m : ℚ) * p).floor : ℤ) : ℚ) := by rw [hc1]
    push_cast at this hfl2
    push_cast
    linarith

/-- **C20 (Bernoulli, random).** The random sample has `n` entries, all 0 or 1. -/
theorem C20_bernoulli_random (rng : BernRng) (hr : rng.Lawful) (p : ℚ) (selfN n : Option ℕ) (m : ℕ)
    (hm : resolveN n selfN = .ok m) :
    ∃ l, bernoulliSample rng p selfN n true = .ok l ∧ l.length = m ∧ ∀ x ∈ l, x = 0 ∨ x = 1 := by
  unfold bernoulliSample
  rw [hm]
  refine ⟨_, rfl, hr.binomial1_len p m, ?_⟩
  intro x hx
  have := hr.binomial1_bin p m x hx
  omega

/-- `n or self.n`: ValueError exactly when no positive `n` is given and the dataset has none. -/
theorem C20_resolveN (n selfN : Option ℕ) :
    (resolveN n selfN = .error .nNone ↔ ((n = none ∨ n = some 0) ∧ selfN = none)) ∧
    (∀ k, 0 < k → resolveN (some k) selfN = .ok k) := by
  constructor
  · cases n with
    | none => cases selfN <;> simp [resolveN]
    | some k =>
      cases k with
      | zero => cases selfN <;> simp [resolveN]
      | succ k => simp [resolveN]
  · intro k hk
    cases k with
    | zero => omega
    | succ k => simp [resolveN]

example : ∃ (rng : BernRng) (p : ℚ) (selfN n : Option ℕ) (m : ℕ), rng.Lawful ∧ 0 ≤ p ∧ p ≤ 1 ∧
    resolveN n selfN = .ok m :=
  ⟨BernRng.toy, 1 / 2, none, some 4, 4, BernRng.toy_lawful, by norm_num, by norm_num, rfl⟩

/-! ### C20: correlated pair -/

/-- **C20 (joint sum).** The four joint probabilities sum to one, whatever `sqrt` returns. -/
theorem C20_joint_sum (sqrt : ℚ → ℚ) (p1 p2 rho : ℚ) :
    (correlatedJoint sqrt p1 p2 rho).sum = 1 := by
  simp only [correlatedJoint, List.sum_cons, List.sum_nil]
  ring

/-- the marginals of the joint distribution are `p1` and `p2` -/
theorem C20_joint_marginals (sqrt : ℚ → ℚ) (p1 p2 rho : ℚ) :
    ∃ q0 q1 q2 q3, correlatedJoint sqrt p1 p2 rho = [q0, q1, q2, q3] ∧
      q1 + q3 = p1 ∧ q2 + q3 = p2 ∧ q0 + q1 + q2 + q3 = 1 := by
  refine ⟨_, _, _, _, rfl, ?_, ?_, ?_⟩ <;> ring

theorem any_neg_natCast (a b c e : ℕ) :
    ([(a : ℤ), (b : ℤ), (c : ℤ), (e : ℤ)].any fun k => decide (k < 0)) = false := by
  simp only [List.any_cons, List.any_nil, Bool.or_false, Bool.or_eq_false_iff, decide_eq_false_iff_not]
  omega

/-- counts of the non-random joint sample for a valid distribution -/
theorem jointCounts_valid (m : ℕ) (q0 q1 q2 q3 : ℚ) (h0 : 0 ≤ q0) (h1 : 0 ≤ q1) (h2 : 0 ≤ q2)
    (h3 : 0 ≤ q3) (hsum : q0 + q1 + q2 + q3 = 1) :
    ∃ a b c e : ℕ, jointCounts m [q0, q1, q2, q3] = [(a : ℤ), (b : ℤ), (c : ℤ), (e : ℤ)] ∧
      (a : ℤ) = ((m : ℚ) * q0).floor ∧ (b : ℤ) = ((m : ℚ) * q1).floor ∧
      (c : ℤ) = ((m : ℚ) * q2).floor ∧ a + b + c + e = m := by
  have hm0 : (0 : ℚ) ≤ (m : ℚ) := Nat.cast_nonneg m
  have f0 : (0 : ℤ) ≤ ((m : ℚ) * q0).floor := by
    rw [Rat.le_floor_iff]; simpa using mul_nonneg hm0 h0
  have f1 : (0 : ℤ) ≤ ((m : ℚ) * q1).floor := by
    rw [Rat.le_floor_iff]; simpa using mul_nonneg hm0 h1
  have f2 : (0 : ℤ) ≤ ((m : ℚ) * q2).floor := by
    rw [Rat.le_floor_iff]; simpa using mul_nonneg hm0 h2
  have g0 := Rat.floor_le ((m : ℚ) * q0)
  have g1 := Rat.floor_le ((m : ℚ) * q1)
  have g2 := Rat.floor_le ((m : ℚ) * q2)
  have hle : ((m : ℚ) * q0).floor + ((m : ℚ) * q1).floor + ((m : ℚ) * q2).floor ≤ (m : ℤ) := by
    have h : (((((m : ℚ) * q0).floor + ((m : ℚ) * q1).floor + ((m : ℚ) * q2).floor : ℤ)) : ℚ) ≤
        ((m : ℤ) : ℚ) := by
      push_cast
      have : (m : ℚ) * q0 + (m : ℚ) * q1 + (m : ℚ) * q2 = (m : ℚ) * (1 - q3) := by
        rw [← hsum]; ring
      nlinarith
    exact_mod_cast h
  obtain ⟨a, ha⟩ := Int.eq_ofNat_of_zero_le f0
  obtain ⟨b, hb⟩ := Int.eq_ofNat_of_zero_le f1
  obtain ⟨c, hc⟩ := Int.eq_ofNat_of_zero_le f2
  refine ⟨a, b, c, m - (a + b + c), ?_, ha.symm, hb.symm, hc.symm, ?_⟩
  · simp only [jointCounts, List.map_cons, List.map_nil, ha, hb, hc]
    simp
    omega
  · omega

/-- **C20 (joint valid).** With a resolved `n`, `sample` raises the "negative probabilities"
ValueError iff one of the four joint probabilities is negative (a decidable predicate, the one
evaluated by `Spec.C20.jointInvalid`); for a valid joint distribution it raises nothing at all. -/
theorem C20_joint_valid (sqrt : ℚ → ℚ) (rng : BernRng) (p1 p2 rho : ℚ) (selfN n : Option ℕ)
    (random : Bool) (m : ℕ) (hm : resolveN n selfN = .ok m) :
    (correlatedSample sqrt rng p1 p2 rho selfN n random = .error .negProb ↔
      jointInvalid (correlatedJoint sqrt p1 p2 rho) = true) ∧
    ((∃ e, correlatedSample sqrt rng p1 p2 rho selfN n random = .error e) ↔
      ∃ q ∈ correlatedJoint sqrt p1 p2 rho, q < 0) := by
  by_cases hinv : (correlatedJoint sqrt p1 p2 rho).any (fun q => decide (q < 0)) = true
  · have hex : ∃ q ∈ correlatedJoint sqrt p1 p2 rho, q < 0 := by
      simpa [List.any_eq_true] using hinv
    have e : correlatedSample sqrt rng p1 p2 rho selfN n random = .error .negProb := by
      unfold correlatedSample
      rw [hm]
      simp only [hinv, if_true]
    exact ⟨⟨fun _ => hinv, fun _ => e⟩, ⟨fun _ => hex, fun _ => ⟨_, e⟩⟩⟩
  · have hall : ∀ q ∈ correlatedJoint sqrt p1 p2 rho, 0 ≤ q := by
      intro q hq
      by_contra hneg
      apply hinv
      rw [List.any_eq_true]
      exact ⟨q, hq, by simpa using hneg⟩
    have hnex : ¬ ∃ q ∈ correlatedJoint sqrt p1 p2 rho, q < 0 := by
      rintro ⟨q, hq, hlt⟩
      have := hall q hq
      linarith
    obtain ⟨q0, q1, q2, q3, hj, _, _, hsum⟩ := C20_joint_marginals sqrt p1 p2 rho
    rw [hj] at hall
    obtain ⟨a, b, c, e, hcnt, _, _, _, _⟩ := jointCounts_valid m q0 q1 q2 q3
      (hall q0 (by simp)) (hall q1 (by simp)) (hall q2 (by simp)) (hall q3 (by simp)) hsum
    have hok : ∃ r, correlatedSample sqrt rng p1 p2 rho selfN n random = .ok r := by
      unfold correlatedSample
      rw [hm]
      simp only [hinv, Bool.false_eq_true, if_false]
      cases random
      · simp only [Bool.false_eq_true, if_false]
        rw [hj, hcnt, any_neg_natCast]
        simp
      · simp
    obtain ⟨r, hr⟩ := hok
    refine ⟨⟨fun h => ?_, fun h => ?_⟩, ⟨fun h => ?_, fun h => absurd h hnex⟩⟩
    · rw [hr] at h; cases h
    · exact absurd h hinv
    · obtain ⟨e', he'⟩ := h; rw [hr] at he'; cases he'

/-- the non-random joint sample, row by row -/
theorem corr_nonrandom (sqrt : ℚ → ℚ) (rng : BernRng) (hr : rng.Lawful) (p1 p2 rho : ℚ)
    (selfN n : Option ℕ) (m : ℕ) (hm : resolveN n selfN = .ok m)
    (hvalid : ∀ q ∈ correlatedJoint sqrt p1 p2 rho, 0 ≤ q) :
    ∃ (q0 q1 q2 q3 : ℚ) (a b c e : ℕ) (j : List ℕ),
      correlatedJoint sqrt p1 p2 rho = [q0, q1, q2, q3] ∧
      correlatedSample sqrt rng p1 p2 rho selfN n false = .ok (j.map (· % 2), j.map (· / 2)) ∧
      (a : ℤ) = ((m : ℚ) * q0).floor ∧ (b : ℤ) = ((m : ℚ) * q1).floor ∧
      (c : ℤ) = ((m : ℚ) * q2).floor ∧ a + b + c + e = m ∧
      j.length = m ∧ (j.map (· % 2)).count 1 = b + e ∧ (j.map (· / 2)).count 1 = c + e ∧
      j.count 0 = a ∧ j.count 1 = b ∧ j.count 2 = c ∧ (∀ x ∈ j, x < 4) := by
  obtain ⟨q0, q1, q2, q3, hj, _, _, hsum⟩ := C20_joint_marginals sqrt p1 p2 rho
  have hall := hvalid
  rw [hj] at hall
  obtain ⟨a, b, c, e, hcnt, ha, hb, hc, htot⟩ := jointCounts_valid m q0 q1 q2 q3
    (hall q0 (by simp)) (hall q1 (by simp)) (hall q2 (by simp)) (hall q3 (by simp)) hsum
  have hinv : ¬ ((correlatedJoint sqrt p1 p2 rho).any (fun q => decide (q < 0)) = true) := by
    rw [List.any_eq_true]
    rintro ⟨q, hq, hlt⟩
    have := hvalid q hq
    simp at hlt
    linarith
  obtain ⟨hlen, hr0, hr1, hc0, hc1, hc2, hlt⟩ := replicate_cells a b c e
  have hperm := hr.shuffle_perm
    (List.replicate a 0 ++ (List.replicate b 1 ++ (List.replicate c 2 ++ List.replicate e 3)))
  refine ⟨q0, q1, q2, q3, a, b, c, e, rng.shuffle
    (List.replicate a 0 ++ (List.replicate b 1 ++ (List.replicate c 2 ++ List.replicate e 3))),
    hj, ?_, ha, hb, hc, htot, ?_, ?_, ?_, ?_, ?_, ?_, ?_⟩
  · unfold correlatedSample
    rw [hm]
    simp only [hinv, Bool.false_eq_true, if_false]
    rw [hj, hcnt, any_neg_natCast]
    simp [repeatFrom]
  · rw [hperm.length_eq, hlen]; exact htot
  · rw [(hperm.map _).count_eq]; exact hr0
  · rw [(hperm.map _).count_eq]; exact hr1
  · rw [hperm.count_eq]; exact hc0
  · rw [hperm.count_eq]; exact hc1
  · rw [hperm.count_eq]; exact hc2
  · intro x hx; exact hlt x (hperm.mem_iff.mp hx)

/-- **C20 (marginals).** For a valid joint distribution the non-random sample has exactly `n`
columns, and the number of ones in row 0 exceeds `n p1` by less than 2 (`0 ≤ ones - n p1 < 2`),
likewise row 1 and `p2` — hence both marginals are reproduced to within three draws. -/
theorem C20_marginals (sqrt : ℚ → ℚ) (rng : BernRng) (hr : rng.Lawful) (p1 p2 rho : ℚ)
    (selfN n : Option ℕ) (m : ℕ) (hm : resolveN n selfN = .ok m)
    (hvalid : ∀ q ∈ correlatedJoint sqrt p1 p2 rho, 0 ≤ q) :
    ∃ r0 r1, correlatedSample sqrt rng p1 p2 rho selfN n false = .ok (r0, r1) ∧
      r0.length = m ∧ r1.length = m ∧
      (m : ℚ) * p1 ≤ (r0.count 1 : ℕ) ∧ ((r0.count 1 : ℕ) : ℚ) < (m : ℚ) * p1 + 2 ∧
      (m : ℚ) * p2 ≤ (r1.count 1 : ℕ) ∧ ((r1.count 1 : ℕ) : ℚ) < (m : ℚ) * p2 + 2 := by
  obtain ⟨q0, q1, q2, q3, a, b, c, e, j, hj, hs, ha, hb, hc, htot, hlen, hr0, hr1, _, _, _, _⟩ :=
    corr_nonrandom sqrt rng hr p1 p2 rho selfN n m hm hvalid
  obtain ⟨q0', q1', q2', q3', hj', hm1, hm2, hsum⟩ := C20_joint_marginals sqrt p1 p2 rho
  rw [hj] at hj'
  simp only [List.cons.injEq, and_true] at hj'
  obtain ⟨e0, e1, e2, e3⟩ := hj'
  subst e0 e1 e2 e3
  refine ⟨_, _, hs, by simp [hlen], by simp [hlen], ?_⟩
  rw [hr0, hr1]
  have g0 := Rat.floor_le ((m : ℚ) * q0)
  have g1 := Rat.floor_le ((m : ℚ) * q1)
  have g2 := Rat.floor_le ((m : ℚ) * q2)
  have u0 := Rat.lt_floor_add_one ((m : ℚ) * q0)
  have u1 := Rat.lt_floor_add_one ((m : ℚ) * q1)
  have u2 := Rat.lt_floor_add_one ((m : ℚ) * q2)
  rw [← ha] at g0 u0
  rw [← hb] at g1 u1
  rw [← hc] at g2 u2
  push_cast at g0 g1 g2 u0 u1 u2
  have hM : (m : ℚ) = (a : ℚ) + b + c + e := by exact_mod_cast htot.symm
  push_cast
  have x1 : (m : ℚ) * p1 = (m : ℚ) - (m : ℚ) * q0 - (m : ℚ) * q2 := by
    rw [← hm1]
    have : q1 + q3 = 1 - q0 - q2 := by linarith
    rw [this]; ring
  have x2 : (m : ℚ) * p2 = (m : ℚ) - (m : ℚ) * q0 - (m : ℚ) * q1 := by
    rw [← hm2]
    have : q2 + q3 = 1 - q0 - q1 := by linarith
    rw [this]; ring
  refine ⟨?_, ?_, ?_, ?_⟩ <;> linarith

/-- **C20 (shape).** Whenever the correlated sample returns (random or not), it consists of two
rows of `n` entries, all 0 or 1. -/
theorem C20_shape (sqrt : ℚ → ℚ) (rng : BernRng) (hr : rng.Lawful) (p1 p2 rho : ℚ)
    (selfN n : Option ℕ) (random : Bool) (m : ℕ) (hm : resolveN n selfN = .ok m) (r0 r1 : List ℕ)
    (h : correlatedSample sqrt rng p1 p2 rho selfN n random = .ok (r0, r1)) :
    r0.length = m ∧ r1.length = m ∧ (∀ x ∈ r0, x = 0 ∨ x = 1) ∧ (∀ x ∈ r1, x = 0 ∨ x = 1) := by
  have key : ∃ j : List ℕ, r0 = j.map (· % 2) ∧ r1 = j.map (· / 2) ∧ j.length = m ∧
      ∀ x ∈ j, x < 4 := by
    have hinv : ¬ ((correlatedJoint sqrt p1 p2 rho).any (fun q => decide (q < 0)) = true) := by
      intro hinv
      unfold correlatedSample at h
      rw [hm] at h
      simp only [hinv, if_true] at h
      cases h
    cases random
    · have hvalid : ∀ q ∈ correlatedJoint sqrt p1 p2 rho, 0 ≤ q := by
        intro q hq
        by_contra hneg
        apply hinv
        rw [List.any_eq_true]
        exact ⟨q, hq, by simpa using hneg⟩
      obtain ⟨_, _, _, _, _, _, _, _, j, _, hs, _, _, _, _, hlen, _, _, _, _, _, hlt⟩ :=
        corr_nonrandom sqrt rng hr p1 p2 rho selfN n m hm hvalid
      rw [hs] at h
      simp only [Except.ok.injEq, Prod.mk.injEq] at h
      exact ⟨j, h.1.symm, h.2.symm, hlen, hlt⟩
    · unfold correlatedSample at h
      rw [hm] at h
      simp only [hinv, Bool.false_eq_true, if_false, if_true, Except.ok.injEq, Prod.mk.injEq] at h
      exact ⟨_, h.1.symm, h.2.symm, hr.choice4_len _ m, hr.choice4_lt _ m⟩
  obtain ⟨j, e0, e1, hlen, hlt⟩ := key
  subst e0 e1
  refine ⟨by simp [hlen], by simp [hlen], ?_, ?_⟩
  · intro x hx
    rw [List.mem_map] at hx
    obtain ⟨y, hy, rfl⟩ := hx
    have := hlt y hy
    omega
  · intro x hx
    rw [List.mem_map] at hx
    obtain ⟨y, hy, rfl⟩ := hx
    have := hlt y hy
    omega

/-- **C20 (correlated pair, spec form).** For a valid joint distribution the model's non-random
sample satisfies the executable clauses with `eps = 0`: shape `(2, n)` of 0/1 values, both
marginals within 3 draws (indeed `0 ≤ ones - n p < 2`). -/
theorem C20_spec_corr (sqrt : ℚ → ℚ) (rng : BernRng) (hr : rng.Lawful) (p1 p2 rho : ℚ)
    (selfN n : Option ℕ) (m : ℕ) (hm : resolveN n selfN = .ok m)
    (hvalid : ∀ q ∈ correlatedJoint sqrt p1 p2 rho, 0 ≤ q) :
    ∃ r0 r1, correlatedSample sqrt rng p1 p2 rho selfN n false = .ok (r0, r1) ∧
      shapeOK m [r0, r1] = true ∧ marginalOK 3 m p1 r0 = true ∧ marginalOK 3 m p2 r1 = true ∧
      marginalTightOK 0 m p1 r0 = true ∧ marginalTightOK 0 m p2 r1 = true ∧
      jointSumOK 0 (correlatedJoint sqrt p1 p2 rho) = true ∧
      validOK (correlatedJoint sqrt p1 p2 rho) false = true := by
  obtain ⟨r0, r1, hs, _, _, a1, a2, b1, b2⟩ :=
    C20_marginals sqrt rng hr p1 p2 rho selfN n m hm hvalid
  obtain ⟨l0, l1, bin0, bin1⟩ := C20_shape sqrt rng hr p1 p2 rho selfN n false m hm r0 r1 hs
  refine ⟨r0, r1, hs, ?_, ?_, ?_, ?_, ?_, ?_, ?_⟩
  · simp only [shapeOK, binaryAll, List.length_cons, List.length_nil, List.all_cons, List.all_nil,
      l0, l1, Bool.and_eq_true, decide_eq_true_eq, List.all_eq_true, Bool.and_true, true_and]
    refine ⟨?_, ?_⟩
    · intro x hx; rcases bin0 x hx with h | h <;> omega
    · intro x hx; rcases bin1 x hx with h | h <;> omega
  · have : Spec.C20.absQ (((r0.count 1 : ℕ) : ℚ) - (m : ℚ) * p1) ≤ 3 := by
      unfold Spec.C20.absQ; split <;> linarith
    simp only [marginalOK, decide_eq_true_eq]
    exact this
  · have : Spec.C20.absQ (((r1.count 1 : ℕ) : ℚ) - (m : ℚ) * p2) ≤ 3 := by
      unfold Spec.C20.absQ; split <;> linarith
    simp only [marginalOK, decide_eq_true_eq]
    exact this
  · simp only [marginalTightOK, Bool.and_eq_true, decide_eq_true_eq]
    constructor <;> linarith
  · simp only [marginalTightOK, Bool.and_eq_true, decide_eq_true_eq]
    constructor <;> linarith
  · simp only [jointSumOK, near, C20_joint_sum, Spec.C20.absQ, decide_eq_true_eq]
    norm_num
  · simp only [validOK, jointInvalid, beq_iff_eq]
    symm
    rw [Bool.eq_false_iff]
    intro hinv
    rw [List.any_eq_true] at hinv
    obtain ⟨q, hq, hlt⟩ := hinv
    have := hvalid q hq
    simp at hlt
    linarith

example : ∃ (sqrt : ℚ → ℚ) (rng : BernRng) (p1 p2 rho : ℚ) (selfN n : Option ℕ) (m : ℕ),
    rng.Lawful ∧ resolveN n selfN = .ok m ∧ ∀ q ∈ correlatedJoint sqrt p1 p2 rho, 0 ≤ q :=
  ⟨fun _ => 0, BernRng.toy, 1 / 2, 1 / 2, 0, some 4, none, 4, BernRng.toy_lawful, rfl, by
    decide +kernel⟩

/-- an invalid parameter set exists as well (the ValueError branch is reachable) -/
example : jointInvalid (correlatedJoint (fun _ => 1) (9 / 10) (8 / 10) 1) = true := by
  decide +kernel

/-! ### further spec forms -/

theorem floorOK_floor (x : ℚ) (k : ℤ) (h : k = x.floor) : floorOK 0 x k = true := by
  subst h
  have h1 := Rat.floor_le x
  have h2 := Rat.lt_floor_add_one x
  push_cast at h2
  simp only [floorOK, zero_mul, add_zero, sub_zero, Bool.and_eq_true, decide_eq_true_eq]
  exact ⟨h1, h2⟩

theorem near_refl (a : ℚ) : near 0 a a = true := by
  simp [near, Spec.C20.absQ]

theorem rejoin_map (j : List ℕ) : rejoin (j.map (· % 2)) (j.map (· / 2)) = j := by
  unfold rejoin
  induction j with
  | nil => rfl
  | cons x xs ih =>
    simp only [List.map_cons, List.zip_cons_cons, List.cons.injEq]
    exact ⟨by omega, ih⟩

/-- **C20 (cells, spec form).** In the model's non-random sample the joint cells `(0,0)`, `(1,0)`,
`(0,1)` occur exactly `⌊n q_i⌋` times (and `(1,1)` takes the remainder). -/
theorem C20_spec_cells (sqrt : ℚ → ℚ) (rng : BernRng) (hr : rng.Lawful) (p1 p2 rho : ℚ)
    (selfN n : Option ℕ) (m : ℕ) (hm : resolveN n selfN = .ok m)
    (hvalid : ∀ q ∈ correlatedJoint sqrt p1 p2 rho, 0 ≤ q) :
    ∃ r0 r1, correlatedSample sqrt rng p1 p2 rho selfN n false = .ok (r0, r1) ∧
      cellsOK 0 m (correlatedJoint sqrt p1 p2 rho) r0 r1 = true := by
  obtain ⟨q0, q1, q2, q3, a, b, c, e, j, hj, hs, ha, hb, hc, htot, hlen, _, _, hc0, hc1, hc2, _⟩ :=
    corr_nonrandom sqrt rng hr p1 p2 rho selfN n m hm hvalid
  refine ⟨_, _, hs, ?_⟩
  rw [hj]
  simp only [cellsOK, rejoin_map, hlen, hc0, hc1, hc2, decide_true, Bool.true_and,
    Bool.and_eq_true]
  exact ⟨⟨floorOK_floor _ _ ha, floorOK_floor _ _ hb⟩, floorOK_floor _ _ hc⟩

/-- **C20 (from_metrics, spec form).** The constructed model satisfies the executable clause
with `eps = 0`. -/
theorem C20_spec_from_metrics (N : StdNormal) (hN : N.RightInv) (fnr fpr : ℚ) (s1 s2 : ℤ)
    (σp σn : ℚ) (hf0 : 0 < fnr) (hf1 : fnr < 1) (hp0 : 0 < fpr) (hp1 : fpr < 1) (hs1 : 1 ≤ s1)
    (hs2 : 1 ≤ s2) (hσp : 0 < σp) (hσn : 0 < σn) :
    ∃ d nn, NormalDataset.fromMetrics N fnr fpr s1 s2 σp σn = .ok d ∧ d.n = some nn ∧
      fromMetricsOK 0 fnr fpr s1 s2 (d.fnr N 0) (d.fpr N 0) nn ((s1 : ℚ) / fnr).floor d.pPos
        = true := by
  obtain ⟨d, hd, h1, h2, hn, hp, hk1, hk2, _, _, _⟩ :=
    C20_from_metrics N hN fnr fpr s1 s2 σp σn hf0 hf1 hp0 hp1 hs1 hs2 hσp hσn
  refine ⟨d, _, hd, hn, ?_⟩
  have hne : (((((s1 : ℚ) / fnr).floor + ((s2 : ℚ) / fpr).floor : ℤ)) : ℚ) ≠ 0 := by
    have : (0 : ℤ) < ((s1 : ℚ) / fnr).floor + ((s2 : ℚ) / fpr).floor := by omega
    exact_mod_cast ne_of_gt this
  have hpp : d.pPos * (((((s1 : ℚ) / fnr).floor + ((s2 : ℚ) / fpr).floor : ℤ)) : ℚ) =
      ((((s1 : ℚ) / fnr).floor : ℤ) : ℚ) := by
    rw [hp]; field_simp
  simp only [fromMetricsOK, h1, h2, near_refl, hpp, Bool.true_and, Bool.and_true, Bool.and_eq_true]
  exact ⟨floorOK_floor _ _ rfl, floorOK_floor _ _ (by omega)⟩

/-- **C20 (sample, spec form).** -/
theorem C20_spec_sample (d : NormalDataset) (rng : SampleRng) (hr : rng.Lawful) (n : Option ℤ)
    (pPos : Option ℚ) (m : ℕ) (hm : d.pickN n = some (m : ℤ)) :
    ∃ s, d.sample rng n pPos = .ok s ∧
      sampleOK m (rng.binomial m (d.pickP pPos)) d.scoreClass s.pos s.neg s.cfg.scoreClass = true := by
  obtain ⟨s, hs, h1, h2, _, h4, _⟩ := C20_sample_split d rng hr n pPos m hm
  have hk := hr.binomial_le m (d.pickP pPos)
  refine ⟨s, hs, ?_⟩
  simp only [sampleOK, h1, h2, h4, Bool.and_eq_true, decide_eq_true_eq, and_true, true_and]
  omega

theorem nearAll_refl (l : List ℚ) : nearAll 0 l l = true := by
  induction l with
  | nil => rfl
  | cons a l ih => simp only [nearAll, near_refl, ih, Bool.and_self]

/-- **C20 (roc, spec form).** -/
theorem C20_spec_roc (N : StdNormal) (d : NormalDataset) (fnr fpr : Option (List ℚ)) (R : ROC)
    (h : d.roc N fnr fpr = .ok R) : rocOK 0 N d R = true := by
  obtain ⟨h1, h2, _, _⟩ := C20_roc_consistent N d fnr fpr R h
  unfold rocOK
  rw [← h1, ← h2, nearAll_refl, nearAll_refl]
  rfl

/-- **C20 (inverse, spec form).** Round trips through the model return the inputs. -/
theorem C20_spec_inverse (N : StdNormal) (hR : N.RightInv) (hL : N.LeftInv) (d : NormalDataset)
    (hp : 0 < d.sigmaPos) (hn : 0 < d.sigmaNeg) (rates thr : List ℚ)
    (hr : ∀ r ∈ rates, 0 < r ∧ r < 1) :
    inverseOK 0 rates (rates.map fun r => d.fnr N (d.thresholdAtFnr N r)) = true ∧
    inverseOK 0 rates (rates.map fun r => d.fpr N (d.thresholdAtFpr N r)) = true ∧
    inverseOK 0 thr (thr.map fun t => d.thresholdAtFnr N (d.fnr N t)) = true ∧
    inverseOK 0 thr (thr.map fun t => d.thresholdAtFpr N (d.fpr N t)) = true := by
  have e1 : (rates.map fun r => d.fnr N (d.thresholdAtFnr N r)) = rates := by
    conv => rhs; rw [← List.map_id rates]
    exact List.map_congr_left fun r h => C20_inverse_fnr N hR d hp r (hr r h).1 (hr r h).2
  have e2 : (rates.map fun r => d.fpr N (d.thresholdAtFpr N r)) = rates := by
    conv => rhs; rw [← List.map_id rates]
    exact List.map_congr_left fun r h => C20_inverse_fpr N hR d hn r (hr r h).1 (hr r h).2
  have e3 : (thr.map fun t => d.thresholdAtFnr N (d.fnr N t)) = thr := by
    conv => rhs; rw [← List.map_id thr]
    exact List.map_congr_left fun t _ => C20_inverse_thr_fnr N hL d hp t
  have e4 : (thr.map fun t => d.thresholdAtFpr N (d.fpr N t)) = thr := by
    conv => rhs; rw [← List.map_id thr]
    exact List.map_congr_left fun t _ => C20_inverse_thr_fpr N hL d hn t
  rw [e1, e2, e3, e4]
  exact ⟨nearAll_refl _, nearAll_refl _, nearAll_refl _, nearAll_refl _⟩

theorem nearRelAll_refl (l : List ℚ) : nearRelAll 0 l l = true := by
  induction l with
  | nil => rfl
  | cons a l ih =>
    have h : nearRel 0 a a = true := by
      simp only [nearRel, sub_self, zero_mul, decide_eq_true_eq, absQ]
      norm_num
    simp only [nearRelAll, h, ih, Bool.and_self]

/-- **C20 (inverse, spec form with a purely relative tolerance).** The round trips of the model return
the inputs exactly, so they also pass the relative form used for rates deep in a tail (1e-150 ... 1e-6),
where the absolute tolerance of `inverseOK` would accept anything. -/
theorem C20_spec_inverse_rel (N : StdNormal) (hR : N.RightInv) (d : NormalDataset)
    (hp : 0 < d.sigmaPos) (hn : 0 < d.sigmaNeg) (rates : List ℚ)
    (hr : ∀ r ∈ rates, 0 < r ∧ r < 1) :
    inverseRelOK 0 rates (rates.map fun r => d.fnr N (d.thresholdAtFnr N r)) = true ∧
    inverseRelOK 0 rates (rates.map fun r => d.fpr N (d.thresholdAtFpr N r)) = true := by
  have e1 : (rates.map fun r => d.fnr N (d.thresholdAtFnr N r)) = rates := by
    conv => rhs; rw [← List.map_id rates]
    exact List.map_congr_left fun r h => C20_inverse_fnr N hR d hp r (hr r h).1 (hr r h).2
  have e2 : (rates.map fun r => d.fpr N (d.thresholdAtFpr N r)) = rates := by
    conv => rhs; rw [← List.map_id rates]
    exact List.map_congr_left fun r h => C20_inverse_fpr N hR d hn r (hr r h).1 (hr r h).2
  rw [e1, e2]
  exact ⟨nearRelAll_refl _, nearRelAll_refl _⟩

example : (∀ r ∈ [(1 : ℚ) / 10 ^ 150, 1 / 10 ^ 6], 0 < r ∧ r < 1) := by
  intro r hr
  simp only [List.mem_cons, List.mem_nil_iff, or_false] at hr
  rcases hr with rfl | rfl <;> norm_num

end SA
