/-
C20 (and C16's rule of three) — the closed forms regenerated from the source (`SA/Model/DsDefs.lean`, `harness/dsdefs.py`).

* `DExpr.eqv_sound`, `checkRow_ok_sound`: an accepted row has the model's codes and every expression has the model's value
  for EVERY environment and EVERY interpretation of the uninterpreted functions (cdf, sf, ppf, isf, sqrt, pow, ...).
* `checkRow_mismatch_sound`: a reported mismatch is a differing outcome code or a named probe at which an expression and
  the model's differ under the lawful interpretation `lawF1` / `lawF2`, both values inside the fragment.
* the interpretation is lawful: `sig_sigInv` / `sigInv_sig` (inverse pair on (0,1)), `sig_pos` / `sig_lt_one`,
  `sig_strictMono`; `sf = 1 - cdf` and `isf p = ppf (1 - p)` hold by definition (`lawF1`).
* `*_eq_model`: the model's rows evaluate to the model's definitions (`SA.NormalDataset.fnr` / `fpr` / `thresholdAtFnr` /
  `thresholdAtFpr` / `make` / `roc` / `fromMetrics`, `SA.correlatedJoint`) on every input and for every oracle; the
  `_bridge` theorems combine the two: an accepted translated row computes the model's functions.
-/
import SA.Model.DsDefs
import SA.Theorems.C05Defs
import SA.Theorems.C20
import Mathlib.Tactic.Linarith
import Mathlib.Tactic.FieldSimp
import Mathlib.Tactic.Ring
import Mathlib.Tactic.Positivity
import Mathlib.Tactic.NormNum

namespace SA.DsDefs
open SA SA.MetricExpr

/-! ### soundness of the comparison -/

theorem DExpr.eqv_sound (a b : DExpr) (h : a.eqv b = true) (env : List ℚ) (F1 : ℕ → ℚ → ℚ) (F2 : ℕ → ℚ → ℚ → ℚ) :
    a.eval env F1 F2 = b.eval env F1 F2 := by
  induction a generalizing b with
  | var i => cases b <;> simp_all [DExpr.eqv, DExpr.eval]
  | const n d => cases b <;> simp_all [DExpr.eqv, DExpr.eval]
  | neg a1 ih =>
    cases b <;> simp only [DExpr.eqv, Bool.false_eq_true] at h
    simp only [DExpr.eval, ih _ h]
  | add a1 a2 ih1 ih2 =>
    cases b <;> simp only [DExpr.eqv, Bool.false_eq_true] at h
    simp only [Bool.or_eq_true, Bool.and_eq_true] at h
    rcases h with ⟨h1, h2⟩ | ⟨h1, h2⟩
    · simp only [DExpr.eval, ih1 _ h1, ih2 _ h2]
    · simp only [DExpr.eval, ih1 _ h1, ih2 _ h2]; exact Rat.add_comm _ _
  | mul a1 a2 ih1 ih2 =>
    cases b <;> simp only [DExpr.eqv, Bool.false_eq_true] at h
    simp only [Bool.or_eq_true, Bool.and_eq_true] at h
    rcases h with ⟨h1, h2⟩ | ⟨h1, h2⟩
    · simp only [DExpr.eval, ih1 _ h1, ih2 _ h2]
    · simp only [DExpr.eval, ih1 _ h1, ih2 _ h2]; exact Rat.mul_comm _ _
  | sub a1 a2 ih1 ih2 =>
    cases b <;> simp only [DExpr.eqv, Bool.false_eq_true] at h
    simp only [Bool.and_eq_true] at h
    simp only [DExpr.eval, ih1 _ h.1, ih2 _ h.2]
  | div a1 a2 ih1 ih2 =>
    cases b <;> simp only [DExpr.eqv, Bool.false_eq_true] at h
    simp only [Bool.and_eq_true] at h
    simp only [DExpr.eval, ih1 _ h.1, ih2 _ h.2]
  | fn1 k a1 ih =>
    cases b <;> simp only [DExpr.eqv, Bool.false_eq_true] at h
    simp only [Bool.and_eq_true, beq_iff_eq] at h
    simp only [DExpr.eval, ih _ h.2, h.1]
  | fn2 k a1 a2 ih1 ih2 =>
    cases b <;> simp only [DExpr.eqv, Bool.false_eq_true] at h
    simp only [Bool.and_eq_true, beq_iff_eq] at h
    simp only [DExpr.eval, ih1 _ h.1.2, ih2 _ h.2, h.1.1]
  | ite op l r t e ihl ihr iht ihe =>
    cases b <;> simp only [DExpr.eqv, Bool.false_eq_true] at h
    simp only [Bool.and_eq_true, beq_iff_eq] at h
    simp only [DExpr.eval, ihl _ h.1.1.1.2, ihr _ h.1.1.2, iht _ h.1.2, ihe _ h.2, h.1.1.1.1]

theorem eqvList_sound : ∀ (as bs : List DExpr), eqvList as bs = true → ∀ (env : List ℚ) (F1 : ℕ → ℚ → ℚ) (F2 : ℕ → ℚ → ℚ → ℚ),
    as.map (fun e => e.eval env F1 F2) = bs.map (fun e => e.eval env F1 F2)
  | [], [], _, _, _, _ => rfl
  | [], _ :: _, h, _, _, _ => by simp [eqvList] at h
  | _ :: _, [], h, _, _, _ => by simp [eqvList] at h
  | a :: as, b :: bs, h, env, F1, F2 => by
    simp only [eqvList, Bool.and_eq_true] at h
    simp only [List.map_cons, DExpr.eqv_sound a b h.1 env F1 F2, eqvList_sound as bs h.2 env F1 F2]

/-- **`ok` is sound**: the model's codes, and the model's values for all inputs and all interpretations -/
theorem checkRow_ok_sound (model got : Row) (probes : List (List ℚ)) (h : checkRow model got probes = .ok) :
    got.codes = model.codes ∧ got.exprs.length = model.exprs.length ∧
    ∀ (env : List ℚ) (F1 : ℕ → ℚ → ℚ) (F2 : ℕ → ℚ → ℚ → ℚ),
      got.exprs.map (fun e => e.eval env F1 F2) = model.exprs.map (fun e => e.eval env F1 F2) := by
  unfold checkRow at h
  by_cases hc : got.codes = model.codes ∧ eqvList got.exprs model.exprs = true
  · refine ⟨hc.1, ?_, eqvList_sound _ _ hc.2⟩
    have := congrArg List.length (eqvList_sound _ _ hc.2 [] (fun _ x => x) (fun _ x _ => x))
    simpa using this
  · simp only [hc, if_false] at h
    split at h
    · cases h
    · split at h <;> cases h

theorem firstNe_sound : ∀ (as bs : List Int) (k i : ℕ), firstNe as bs k = some i → k ≤ i ∧ as[i - k]? ≠ bs[i - k]?
  | [], [], _, _, h => by simp [firstNe] at h
  | [], _ :: _, k, i, h => by simp only [firstNe, Option.some.injEq] at h; subst h; simp
  | _ :: _, [], k, i, h => by simp only [firstNe, Option.some.injEq] at h; subst h; simp
  | a :: as, b :: bs, k, i, h => by
    simp only [firstNe] at h
    by_cases hab : a = b
    · simp only [hab, if_true] at h
      obtain ⟨hk, hne⟩ := firstNe_sound as bs (k + 1) i h
      refine ⟨by omega, ?_⟩
      have : i - k = (i - (k + 1)) + 1 := by omega
      rw [this]
      simpa using hne
    · simp only [hab, if_false, Option.some.injEq] at h
      subst h
      simpa using hab

/-- **a reported mismatch is definite**: outcome code `j` differs, or probe `i` separates an expression from the model's
under the lawful interpretation (both values inside the fragment) -/
theorem checkRow_mismatch_sound (model got : Row) (probes : List (List ℚ)) (i : ℕ)
    (h : checkRow model got probes = .mismatch i) :
    (∃ j, i = 1000 + j ∧ got.codes[j]? ≠ model.codes[j]?) ∨
    ∃ w, probes[i]? = some w ∧ differsAt model got w = true := by
  unfold checkRow at h
  by_cases hc : got.codes = model.codes ∧ eqvList got.exprs model.exprs = true
  · simp [hc] at h
  · simp only [hc, if_false] at h
    split at h
    · rename_i j hj
      cases h
      exact Or.inl ⟨j, rfl, by simpa using (firstNe_sound _ _ 0 j hj).2⟩
    · split at h
      · rename_i k hk
        cases h
        obtain ⟨w, hw, hp, _⟩ := SA.CmDefs.firstIdx_sound _ _ _ _ hk
        exact Or.inr ⟨w, by simpa using hw, hp⟩
      · cases h

/-- what `differsAt` means: some expression of the row has a value different from the model's, both inside the fragment -/
theorem differsList_sound : ∀ (as bs : List Val), differsList as bs = true →
    ∃ (k : ℕ) (a b : Val), as[k]? = some a ∧ bs[k]? = some b ∧ a ≠ b ∧ a ≠ Val.bad ∧ b ≠ Val.bad
  | [], _, h => by simp [differsList] at h
  | _ :: _, [], h => by simp [differsList] at h
  | a :: as, b :: bs, h => by
    simp only [differsList, Bool.or_eq_true] at h
    rcases h with h | h
    · refine ⟨0, a, b, rfl, rfl, ?_⟩
      simp only [Val.differs, Bool.and_eq_true, Bool.not_eq_true', decide_eq_true_eq] at h
      refine ⟨h.2, ?_, ?_⟩
      · intro hb; rw [hb] at h; simp [Val.isBad] at h
      · intro hb; rw [hb] at h; simp [Val.isBad] at h
    · obtain ⟨k, x, y, h1, h2, h3⟩ := differsList_sound as bs h
      exact ⟨k + 1, x, y, by simpa using h1, by simpa using h2, h3⟩

/-! ### the probe interpretation is lawful -/

theorem absQ_eq (x : ℚ) : absQ x = |x| := by
  unfold absQ
  split
  · rename_i h; rw [abs_of_neg h]
  · rename_i h; rw [abs_of_nonneg (not_lt.mp h)]

theorem sig_pos (x : ℚ) : 0 < sig x := by
  unfold sig
  rw [absQ_eq]
  have h1 : 0 < 1 + |x| := by positivity
  have h2 : -(1 + |x|) < x := by have := neg_abs_le x; linarith
  have h3 : -1 < x / (1 + |x|) := by rw [lt_div_iff₀ h1]; linarith
  linarith

theorem sig_lt_one (x : ℚ) : sig x < 1 := by
  unfold sig
  rw [absQ_eq]
  have h1 : 0 < 1 + |x| := by positivity
  have h2 : x < 1 + |x| := by have := le_abs_self x; linarith
  have h3 : x / (1 + |x|) < 1 := by rw [div_lt_one h1]; exact h2
  linarith

/-- `ppf (cdf x) = x` -/
theorem sigInv_sig (x : ℚ) : sigInv (sig x) = x := by
  unfold sigInv sig
  rw [absQ_eq, absQ_eq]
  have h1 : 0 < 1 + |x| := by positivity
  have e : 2 * ((1 + x / (1 + |x|)) / 2) - 1 = x / (1 + |x|) := by ring
  rw [e, abs_div, abs_of_pos h1]
  have e2 : 1 - |x| / (1 + |x|) = 1 / (1 + |x|) := by field_simp; ring
  rw [e2]
  field_simp

/-- `cdf (ppf p) = p` on (0, 1) -/
theorem sig_sigInv (p : ℚ) (h0 : 0 < p) (h1 : p < 1) : sig (sigInv p) = p := by
  unfold sig sigInv
  rw [absQ_eq, absQ_eq]
  have hy : |2 * p - 1| < 1 := by rw [abs_lt]; constructor <;> linarith
  have hd : 0 < 1 - |2 * p - 1| := by linarith
  rw [abs_div, abs_of_pos hd]
  have e : 1 + |2 * p - 1| / (1 - |2 * p - 1|) = 1 / (1 - |2 * p - 1|) := by field_simp; ring
  rw [e]
  field_simp
  ring

/-- the probe cdf is strictly increasing -/
theorem sig_strictMono (x y : ℚ) (h : x < y) : sig x < sig y := by
  by_contra hn
  rw [not_lt] at hn
  -- `sigInv` is monotone on (0,1) would be the direct route; use the explicit form instead
  unfold sig at hn
  rw [absQ_eq, absQ_eq] at hn
  have hx : 0 < 1 + |x| := by positivity
  have hy : 0 < 1 + |y| := by positivity
  have hxy : y / (1 + |y|) ≤ x / (1 + |x|) := by linarith
  rw [div_le_div_iff₀ hy hx] at hxy
  rcases le_or_gt 0 x with h0 | h0
  · have hy0 : 0 ≤ y := by linarith
    rw [abs_of_nonneg h0, abs_of_nonneg hy0] at hxy
    nlinarith
  · rcases le_or_gt 0 y with hy0 | hy0
    · rw [abs_of_neg h0, abs_of_nonneg hy0] at hxy
      nlinarith
    · rw [abs_of_neg h0, abs_of_neg hy0] at hxy
      nlinarith

/-- the lawful interpretation as the probes use it: `sf = 1 - cdf`, `isf p = ppf (1 - p)`, `ppf` inverts `cdf` -/
theorem lawF1_lawful (x : ℚ) :
    lawF1 1 (.num x) = (Val.num 1).sub (lawF1 0 (.num x)) ∧ lawF1 3 (.num x) = lawF1 2 (.num (1 - x)) ∧
    lawF1 2 (lawF1 0 (.num x)) = .num x := by
  refine ⟨rfl, rfl, ?_⟩
  simp only [lawF1, lawPpf, sig_pos x, sig_lt_one x, and_self, if_true, sigInv_sig]

/-! ### the model's rows are the model's definitions -/

/-- interpretation of the function symbols by the oracles of the model -/
def interp1 (N : StdNormal) (sqrt : ℚ → ℚ) : ℕ → ℚ → ℚ
  | 0 => N.Phi
  | 1 => fun x => 1 - N.Phi x
  | 2 => N.PhiInv
  | 3 => fun p => N.PhiInv (1 - p)
  | 4 => sqrt
  | 5 => fun x => ((truncQ x : ℤ) : ℚ)
  | 6 => fun x => ((x.floor : ℤ) : ℚ)
  | _ => fun _ => 0

def envN (d : NormalDataset) (x : ℚ) : List ℚ := [d.muPos, d.muNeg, d.sigmaPos, d.sigmaNeg, x]

/-- the four closed forms and the default of `mu_neg`, for every dataset, argument and oracle -/
theorem normal_eq_model (N : StdNormal) (sqrt : ℚ → ℚ) (F2 : ℕ → ℚ → ℚ → ℚ) (d : NormalDataset) (x : ℚ) :
    modelNormal.exprs.map (fun e => e.eval (envN d x) (interp1 N sqrt) F2) =
      [d.fnr N x, d.fpr N x, d.thresholdAtFnr N x, d.thresholdAtFpr N x, (NormalDataset.make d.muPos none).muNeg,
       d.thresholdAtFnr N x, d.fnr N (d.thresholdAtFnr N x), d.fpr N (d.thresholdAtFnr N x),
       d.thresholdAtFpr N x, d.fnr N (d.thresholdAtFpr N x), d.fpr N (d.thresholdAtFpr N x)] := by
  simp [modelNormal, mFnr, mFpr, mThrFnr, mThrFpr, std, locScale, DExpr.eval, envN, interp1, NormalDataset.fnr, NormalDataset.fpr,
    NormalDataset.thresholdAtFnr, NormalDataset.thresholdAtFpr, NormalDataset.make, StdNormal.cdf, StdNormal.sf, StdNormal.ppf,
    StdNormal.isf]

/-- the `__post_init__` codes of the model's row are `NormalDataset.make`: only `None` is replaced, an explicit 0 is kept -/
theorem normal_post_eq_model (muPos m : ℚ) :
    modelNormal.codes.take 3 = [1, 0, 0] ∧ (NormalDataset.make muPos none).muNeg = -muPos ∧
    (NormalDataset.make muPos (some 0)).muNeg = 0 ∧ (NormalDataset.make muPos (some m)).muNeg = m :=
  ⟨rfl, rfl, rfl, rfl⟩

/-- `roc`: the curve reports the rates AT the computed thresholds, the errors are the model's -/
theorem normal_roc_eq_model (N : StdNormal) (sqrt : ℚ → ℚ) (F2 : ℕ → ℚ → ℚ → ℚ) (d : NormalDataset) (g : List ℚ) :
    let ev := fun (k : ℕ) (r : ℚ) => (modelNormal.exprs.getD k default).eval (envN d r) (interp1 N sqrt) F2
    d.roc N (some g) none = .ok ⟨g.map (ev 6), g.map (ev 7), g.map (ev 5)⟩ ∧
    d.roc N none (some g) = .ok ⟨g.map (ev 9), g.map (ev 10), g.map (ev 8)⟩ ∧
    d.roc N none none = .error .rocNeither ∧ d.roc N (some g) (some g) = .error .rocBoth ∧
    modelNormal.codes.drop 3 = [1, 1, 0, 0] := by
  simp [modelNormal, mFnr, mFpr, mThrFnr, mThrFpr, std, locScale, DExpr.eval, envN, interp1, NormalDataset.roc, NormalDataset.rocOf,
    NormalDataset.fnr, NormalDataset.fpr, StdNormal.cdf, StdNormal.sf, StdNormal.ppf, StdNormal.isf, List.map_map, Function.comp_def]

/-- `from_metrics` outside its error branches -/
theorem fm_eq_model (N : StdNormal) (sqrt : ℚ → ℚ) (F2 : ℕ → ℚ → ℚ → ℚ) (fnr fpr : ℚ) (fs ps : ℤ) (sp sn : ℚ)
    (h0 : fnr ≠ 0) (h1 : fpr ≠ 0) (hn : truncQ ((fs : ℚ) / fnr) + truncQ ((ps : ℚ) / fpr) ≠ 0) :
    ∃ d, NormalDataset.fromMetrics N fnr fpr fs ps sp sn = .ok d ∧ d.scoreClass = .pos ∧ modelFm.codes = [1] ∧
      modelFm.exprs.map (fun e => e.eval [fnr, fpr, fs, ps, sp, sn] (interp1 N sqrt) F2) =
        [d.muPos, d.muNeg, d.sigmaPos, d.sigmaNeg, d.pPos, ((d.n.getD 0 : ℤ) : ℚ)] := by
  refine ⟨_, by simp only [NormalDataset.fromMetrics, h0, h1, hn, if_false]; rfl, rfl, rfl, ?_⟩
  simp [modelFm, mNbPos, mNbNeg, c1, DExpr.eval, interp1]

/-- the four joint probabilities -/
theorem corr_eq_model (N : StdNormal) (sqrt : ℚ → ℚ) (F2 : ℕ → ℚ → ℚ → ℚ) (p1 p2 rho : ℚ) :
    modelCorr.exprs.map (fun e => e.eval [p1, p2, rho] (interp1 N sqrt) F2) = correlatedJoint sqrt p1 p2 rho := by
  simp [modelCorr, mA, mC, c1, DExpr.eval, interp1, correlatedJoint]

/-- the validity codes of the model's row are the model's test `q < 0` -/
theorem corr_valid_eq_model :
    modelCorr.codes = [(-1 : ℚ), 0, 1].map fun q => if decide (q < 0) then (1 : ℤ) else 0 := by decide +kernel

/-! ### bridges: an accepted translated row computes the model's functions -/

theorem normal_bridge (got : Row) (h : checkRow modelNormal got normalProbes = .ok) (N : StdNormal) (sqrt : ℚ → ℚ)
    (F2 : ℕ → ℚ → ℚ → ℚ) (d : NormalDataset) (x : ℚ) :
    got.codes = [1, 0, 0, 1, 1, 0, 0] ∧
    got.exprs.map (fun e => e.eval (envN d x) (interp1 N sqrt) F2) =
      [d.fnr N x, d.fpr N x, d.thresholdAtFnr N x, d.thresholdAtFpr N x, -d.muPos,
       d.thresholdAtFnr N x, d.fnr N (d.thresholdAtFnr N x), d.fpr N (d.thresholdAtFnr N x),
       d.thresholdAtFpr N x, d.fnr N (d.thresholdAtFpr N x), d.fpr N (d.thresholdAtFpr N x)] := by
  obtain ⟨hc, _, he⟩ := checkRow_ok_sound _ _ _ h
  exact ⟨hc, by rw [he, normal_eq_model]; rfl⟩

theorem fm_bridge (got : Row) (h : checkRow modelFm got fmProbes = .ok) (N : StdNormal) (sqrt : ℚ → ℚ)
    (F2 : ℕ → ℚ → ℚ → ℚ) (fnr fpr : ℚ) (fs ps : ℤ) (sp sn : ℚ)
    (h0 : fnr ≠ 0) (h1 : fpr ≠ 0) (hn : truncQ ((fs : ℚ) / fnr) + truncQ ((ps : ℚ) / fpr) ≠ 0) :
    ∃ d, NormalDataset.fromMetrics N fnr fpr fs ps sp sn = .ok d ∧ got.codes = [1] ∧
      got.exprs.map (fun e => e.eval [fnr, fpr, fs, ps, sp, sn] (interp1 N sqrt) F2) =
        [d.muPos, d.muNeg, d.sigmaPos, d.sigmaNeg, d.pPos, ((d.n.getD 0 : ℤ) : ℚ)] := by
  obtain ⟨hc, _, he⟩ := checkRow_ok_sound _ _ _ h
  obtain ⟨d, hd, _, _, hm⟩ := fm_eq_model N sqrt F2 fnr fpr fs ps sp sn h0 h1 hn
  exact ⟨d, hd, hc, by rw [he, hm]⟩

theorem corr_bridge (got : Row) (h : checkRow modelCorr got corrProbes = .ok) (N : StdNormal) (sqrt : ℚ → ℚ)
    (F2 : ℕ → ℚ → ℚ → ℚ) (p1 p2 rho : ℚ) :
    got.codes = [1, 0, 0] ∧
    got.exprs.map (fun e => e.eval [p1, p2, rho] (interp1 N sqrt) F2) = correlatedJoint sqrt p1 p2 rho := by
  obtain ⟨hc, _, he⟩ := checkRow_ok_sound _ _ _ h
  exact ⟨hc, by rw [he, corr_eq_model]⟩

/-- the hypotheses of `fm_eq_model` / `fm_bridge` are satisfiable -/
example : ((1 : ℚ) / 4 ≠ 0) ∧ ((1 : ℚ) / 10 ≠ 0) ∧ truncQ (((5 : ℤ) : ℚ) / (1 / 4)) + truncQ (((3 : ℤ) : ℚ) / (1 / 10)) ≠ 0 := by
  decide +kernel

/-! ### the check on examples: the model's rows are accepted; wrong tails / parameters / rounding are definite
mismatches; `1 - cdf` for `sf` is `undecided` (never an alarm) -/

example : checkRow modelNormal modelNormal normalProbes = .ok := by decide +kernel
example : checkRow modelFm modelFm fmProbes = .ok := by decide +kernel
example : checkRow modelCorr modelCorr corrProbes = .ok := by decide +kernel
/-- `fpr` with the cdf tail -/
example : checkRow modelNormal { modelNormal with exprs := modelNormal.exprs.set 1 (.fn1 0 (std (.var 4) (.var 1) (.var 3))) }
    normalProbes = .mismatch 0 := by decide +kernel
/-- `fpr = 1 - cdf` (seeded C20_5: differs in floating point only) -/
example : checkRow modelNormal { modelNormal with exprs := modelNormal.exprs.set 1 (.sub c1 (.fn1 0 (std (.var 4) (.var 1) (.var 3)))) }
    normalProbes = .undecided := by decide +kernel
/-- `mu_neg or -mu_pos` (seeded C20_11): an explicit 0.0 is replaced -/
example : checkRow modelNormal { modelNormal with codes := [1, 1, 0, 1, 1, 0, 0] } normalProbes = .mismatch 1001 := by decide +kernel
/-- `roc(fnr=grid)` reports the requested grid (seeded C20_14): differs at the out-of-range rate 3/2 (NaN vs 3/2) -/
example : checkRow modelNormal { modelNormal with exprs := modelNormal.exprs.set 6 (.var 4) } normalProbes = .mismatch 4 := by
  decide +kernel
/-- `mu_neg` from `sigma_pos` (seeded C20_1) -/
example : checkRow modelFm { modelFm with exprs := modelFm.exprs.set 1 (.mul (.neg (.fn1 2 (.sub c1 (.var 1)))) (.var 4)) }
    fmProbes = .mismatch 0 := by decide +kernel

end SA.DsDefs
