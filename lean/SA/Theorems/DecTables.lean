/-
Bridge theorems for the decision tables regenerated from the source (`harness/dectables.py`,
`lean/SA/Model/DecTables.lean`).

`*_eq_model`  (the `table_eq_model` lemmas): the denotation of the MODEL's row is the model's
              function, for all scores / thresholds / targets / easy counts / oracles.
`*_bridge`    if a translated row equals the model's row, the code-shaped function it describes
              equals the model's function for ALL inputs — so the C01 / C02 / C03 / C08 / C09 / C15
              theorems about the model apply to it (`cm_bridge_count` spells this out for C01).
`checkTables_sound`  what the generated theorem `checkTables translated = ⟨true, [], n⟩` gives: no row
              has the verdict `mismatch`; a row with verdict `ok` IS the model's row.
-/
import SA.Model.DecTables
import SA.Theorems.C01

namespace SA.DecTables
open SA

/-! ### (a) cm -/

theorem cmRow_eq_model (s : Scores) (t : ERat) : (cmRowModel s.cfg).eval s t = s.cm t := by
  obtain ⟨pos, neg, ep, en, ⟨sc, ec⟩⟩ := s
  cases sc <;> cases ec <;> rfl

theorem cm_bridge (row : CmRow) (cfg : Cfg) (h : row = cmRowModel cfg) (s : Scores) (hs : s.cfg = cfg)
    (t : ERat) : row.eval s t = s.cm t := by
  subst h; subst hs; exact cmRow_eq_model s t

/-- with the `is_sorted` contract, the code-shaped function of an accepted row counts by the
documented decision rule (C01) -/
theorem cm_bridge_count (row : CmRow) (cfg : Cfg) (h : row = cmRowModel cfg) (s : Scores)
    (hs : s.cfg = cfg) (hp : s.pos.Pairwise (· ≤ ·)) (hn : s.neg.Pairwise (· ≤ ·)) (t : ERat) :
    row.eval s t = countCM s.pos s.neg s.easyPos s.easyNeg s.cfg t := by
  rw [cm_bridge row cfg h s hs t]; exact cm_eq_countCM_of_sorted s hp hn t

example : ∃ (row : CmRow) (s : Scores), row = cmRowModel ⟨.neg, .pos⟩ ∧ s.cfg = ⟨.neg, .pos⟩ ∧
    s.pos.Pairwise (· ≤ ·) ∧ s.neg.Pairwise (· ≤ ·) ∧ s.pos ≠ [] ∧ s.easyPos = 2 :=
  ⟨cmRowModel ⟨.neg, .pos⟩, ⟨[1, 2], [0, 3], 2, 1, ⟨.neg, .pos⟩⟩, rfl, rfl, by decide +kernel, by decide +kernel,
    by simp, rfl⟩

/-! ### (b) swap -/

theorem swapRow_eq_model (s : Scores) : (swapRowModel s.cfg).eval s = s.swap := by
  obtain ⟨pos, neg, ep, en, ⟨sc, ec⟩⟩ := s
  cases sc <;> cases ec <;> rfl

theorem swap_bridge (row : SwapRow) (cfg : Cfg) (h : row = swapRowModel cfg) (s : Scores)
    (hs : s.cfg = cfg) : row.eval s = s.swap := by
  subst h; subst hs; exact swapRow_eq_model s

/-! ### (c) wrappers -/

theorem arrSel_eq_model (m : Metric) (s : Scores) : (Metric.arrSel m).eval s = s.metricArray m := by
  cases m <;> rfl

private theorem natCast_add' (a b : Nat) : ((a + b : Nat) : Rat) = (a : Rat) + (b : Rat) := by
  exact Rat.natCast_add a b

private theorem rat_max_comm (a b : Rat) : max a b = max b a := by
  rw [Rat.max_def, Rat.max_def]
  by_cases h1 : a ≤ b <;> by_cases h2 : b ≤ a
  · simp only [h1, h2, if_true]; exact Rat.le_antisymm h2 h1
  · simp only [h1, h2, if_true, if_false]
  · simp only [h1, h2, if_true, if_false]
  · exact absurd ((Rat.le_total (a := a) (b := b)).resolve_left h1) h2

private theorem pos_iff (n : Nat) : (0 : Rat) < (n : Rat) ↔ n > 0 := by
  constructor
  · intro h
    rcases Nat.eq_zero_or_pos n with h0 | h0
    · subst h0; exact absurd h (by decide)
    · exact h0
  · intro h
    exact_mod_cast h

theorem hardPosRatioE_eq (s : Scores) (r : Rat) : hardPosRatioE.eval s r = s.hardPosRatio := by
  show (if (0 : Rat) < (s.easyPos : Rat) then (s.pos.length : Rat) / ((s.easyPos : Rat) + (s.pos.length : Rat))
    else ((1 : Nat) : Rat)) = s.hardPosRatio
  unfold Scores.hardPosRatio
  by_cases h : s.easyPos > 0
  · rw [if_pos ((pos_iff _).2 h), if_pos h, natCast_add', Rat.add_comm]
  · rw [if_neg (fun h' => h ((pos_iff _).1 h')), if_neg h]; rfl

theorem hardNegRatioE_eq (s : Scores) (r : Rat) : hardNegRatioE.eval s r = s.hardNegRatio := by
  show (if (0 : Rat) < (s.easyNeg : Rat) then (s.neg.length : Rat) / ((s.easyNeg : Rat) + (s.neg.length : Rat))
    else ((1 : Nat) : Rat)) = s.hardNegRatio
  unfold Scores.hardNegRatio
  by_cases h : s.easyNeg > 0
  · rw [if_pos ((pos_iff _).2 h), if_pos h, natCast_add', Rat.add_comm]
  · rw [if_neg (fun h' => h ((pos_iff _).1 h')), if_neg h]; rfl

theorem nbEasyE_eq (s : Scores) (r : Rat) : nbEasyE.eval s r = (s.nbEasy : Rat) := by
  show (s.easyNeg : Rat) + (s.easyPos : Rat) = ((s.easyPos + s.easyNeg : Nat) : Rat)
  rw [natCast_add', Rat.add_comm]

theorem nbAllE_eq (s : Scores) (r : Rat) : nbAllE.eval s r = (s.nbAll : Rat) := by
  show nbEasyE.eval s r + ((s.neg.length : Rat) + (s.pos.length : Rat)) =
    ((s.nbEasy + (s.pos.length + s.neg.length) : Nat) : Rat)
  rw [nbEasyE_eq, natCast_add', natCast_add', Rat.add_comm (s.neg.length : Rat)]

theorem hardRatioE_eq (s : Scores) (r : Rat) : hardRatioE.eval s r = s.hardRatio := by
  show ((1 : Nat) : Rat) - (if (0 : Rat) < nbEasyE.eval s r then nbEasyE.eval s r / nbAllE.eval s r
    else ((0 : Nat) : Rat)) = s.hardRatio
  rw [nbEasyE_eq, nbAllE_eq]
  unfold Scores.hardRatio Scores.easyRatio
  by_cases h : s.nbEasy > 0
  · rw [if_pos ((pos_iff _).2 h), if_pos h]; rfl
  · rw [if_neg (fun h' => h ((pos_iff _).1 h')), if_neg h]; rfl

/-- the rescaling expression of the model's row denotes `Scores.rescale` -/
theorem rescaleE_eq_model (m : Metric) (s : Scores) (r : Rat) : (rescaleE m).eval s r = s.rescale m r := by
  cases m
  · show min ((max ((0 : Nat) : Rat) (((s.easyPos : Rat) + (s.pos.length : Rat)) * r - (s.easyPos : Rat))) /
        (s.pos.length : Rat)) ((1 : Nat) : Rat) = s.rescale .tpr r
    unfold Scores.rescale Scores.nbAllPos
    rw [natCast_add', Rat.mul_comm, rat_max_comm]; rfl
  · show min (r / hardPosRatioE.eval s r) ((1 : Nat) : Rat) = s.rescale .fnr r
    rw [hardPosRatioE_eq]; rfl
  · show min ((max ((0 : Nat) : Rat) (((s.easyNeg : Rat) + (s.neg.length : Rat)) * r - (s.easyNeg : Rat))) /
        (s.neg.length : Rat)) ((1 : Nat) : Rat) = s.rescale .tnr r
    unfold Scores.rescale Scores.nbAllNeg
    rw [natCast_add', Rat.mul_comm, rat_max_comm]; rfl
  · show min (r / hardNegRatioE.eval s r) ((1 : Nat) : Rat) = s.rescale .fpr r
    rw [hardNegRatioE_eq]; rfl
  · show min ((max ((0 : Nat) : Rat) (r - (s.easyPos : Rat) / nbAllE.eval s r)) / hardRatioE.eval s r)
        ((1 : Nat) : Rat) = s.rescale .topr r
    rw [nbAllE_eq, hardRatioE_eq, rat_max_comm]; rfl
  · show min ((max ((0 : Nat) : Rat) (r - (s.easyNeg : Rat) / nbAllE.eval s r)) / hardRatioE.eval s r)
        ((1 : Nat) : Rat) = s.rescale .tonr r
    rw [nbAllE_eq, hardRatioE_eq, rat_max_comm]; rfl

theorem wrapRow_eq_model (n : WName) (ulp : Ulp) (s : Scores) (r : Rat) (m : Method) :
    (wrapRowModel n).eval ulp s r m = s.thresholdAt ulp n.metric r m := by
  unfold WrapRow.eval wrapRowModel Scores.thresholdAt
  simp only [arrSel_eq_model, rescaleE_eq_model, if_true]

theorem wrap_bridge (row : WrapRow) (n : WName) (h : row = wrapRowModel n) (ulp : Ulp) (s : Scores)
    (r : Rat) (m : Method) : row.eval ulp s r m = s.thresholdAt ulp n.metric r m := by
  subst h; exact wrapRow_eq_model n ulp s r m

/-! ### (d1) `_threshold_at_ratio` -/

theorem normRow_eq_model (k : NormKey) (ulp : Ulp) (scores : List Rat) (r : Rat) :
    (normRowModel k).eval ulp scores r =
      thresholdAtRatio ulp k.cfg scores r k.increasing k.ratioClass k.method := by
  obtain ⟨inc, rc, ⟨sc, ec⟩, m⟩ := k
  cases inc <;> cases rc <;> cases sc <;> cases ec <;> cases m <;> rfl

theorem norm_bridge (row : NormRow) (k : NormKey) (h : row = normRowModel k) (ulp : Ulp)
    (scores : List Rat) (r : Rat) :
    row.eval ulp scores r = thresholdAtRatio ulp k.cfg scores r k.increasing k.ratioClass k.method := by
  subst h; exact normRow_eq_model k ulp scores r

/-! ### (d2) `_invert_increasing_function` -/

theorem invRow_eq_model (lc : Bool) (m : Method) (ulp : Ulp) (s : List Rat) (r : Rat) :
    (invRowModel lc m).eval ulp s r = invertIncreasing ulp s r lc m := by
  cases lc <;> cases m <;>
    simp only [InvRow.eval, invRowModel, invertIncreasing, List.foldl, Sentinel.apply, Stage.val,
      Bool.not_true, Bool.not_false, if_true, if_false, Bool.false_eq_true, decide_eq_true_eq] <;> rfl

theorem inv_bridge (row : InvRow) (lc : Bool) (m : Method) (h : row = invRowModel lc m) (ulp : Ulp)
    (s : List Rat) (r : Rat) : row.eval ulp s r = invertIncreasing ulp s r lc m := by
  subst h; exact invRow_eq_model lc m ulp s r

/-- (c) + (d1) + (d2) composed: accepted rows for a wrapper, its normalisation and the inversion
describe exactly `Scores.thresholdAt` -/
theorem threshold_bridge (w : WrapRow) (n : WName) (hw : w = wrapRowModel n)
    (ulp : Ulp) (s : Scores) (r : Rat) (m : Method)
    (nr : NormRow) (hn : nr = normRowModel ⟨w.increasing, w.ratioClass, s.cfg, m⟩)
    (ir : InvRow) (hi : ir = invRowModel nr.leftCont nr.method) :
    (if (w.guard.eval s).length = 0 then Except.error Err.valueError
     else Except.ok (ir.eval ulp (w.arr.eval s) (flipN nr.flips (w.target.eval s r)))) =
      s.thresholdAt ulp n.metric r m := by
  rw [← wrap_bridge w n hw ulp s r m]
  subst hi
  unfold WrapRow.eval
  rw [invRow_eq_model]
  have := norm_bridge nr _ hn ulp (w.arr.eval s) (w.target.eval s r)
  unfold NormRow.eval at this
  rw [this]
  subst hw
  rfl

/-! ### (e) roc -/

theorem orientRow_eq_model (x : XAxis) (sc : Label) (l : List Rat) :
    orient x sc l = if (orientRowModel (some x) sc).reversed then l.reverse else l := by
  cases x <;> cases sc <;> simp [orient, orientRowModel, XAxis.decreasing]

theorem orient_bridge (row : OrientRow) (x : XAxis) (sc : Label) (h : row = orientRowModel (some x) sc)
    (l : List Rat) : (if row.reversed then l.reverse else l) = orient x sc l := by
  subst h; exact (orientRow_eq_model x sc l).symm

theorem rocRow_eq_model (u : Ulp) (s : Scores) (fnr fpr thresholds : Option (List Rat))
    (nbPoints : Option Nat) (xAxis : String) :
    roc u s fnr fpr thresholds nbPoints xAxis =
      match findSupportThresholds u s fnr fpr thresholds nbPoints xAxis with
      | .error e => .error e
      | .ok ts => .ok (rocRowModel.eval s ts) := by
  unfold roc
  cases findSupportThresholds u s fnr fpr thresholds nbPoints xAxis <;> rfl

/-! ### what the generated theorem gives -/

theorem cmp_ok_iff {α : Type} [DecidableEq α] (model r : α) : cmp model (some r) = .ok ↔ r = model := by
  unfold cmp
  by_cases h : r = model
  · simp [h]
  · simp [h]

theorem cmpWrap_ok_iff (model r : WrapRow) : cmpWrap model (some r) = .ok ↔ r = model := by
  unfold cmpWrap
  by_cases h : r = model
  · simp [h]
  · simp only [h, if_false]
    constructor
    · intro h'
      split at h' <;> cases h'
    · intro h'; exact h'.elim

private theorem tally_bad_nil (tbl : Nat) (vs : List Verdict) (h : (tally tbl vs).1 = []) :
    ∀ v ∈ vs, v ≠ .mismatch := by
  intro v hv hm
  subst hm
  unfold tally at h
  simp only [List.map_eq_nil_iff, List.filter_eq_nil_iff] at h
  obtain ⟨i, hi⟩ := List.mem_iff_getElem.1 hv
  obtain ⟨hlt, hget⟩ := hi
  have hmem : (Verdict.mismatch, i) ∈ vs.zipIdx := by
    rw [List.mem_zipIdx_iff_getElem?]
    simp [hget, List.getElem?_eq_getElem hlt]
  exact (h _ hmem) (by simp)

/-- `checkTables t = ⟨true, [], n⟩` (the generated theorem): no row of any table is a mismatch -/
theorem checkTables_sound (t : Translated) (n : Nat) (h : checkTables t = ⟨true, [], n⟩) :
    ∀ vs ∈ verdicts t, ∀ v ∈ vs, v ≠ .mismatch := by
  intro vs hvs
  have hbad : (checkTables t).bad = [] := by rw [h]
  unfold checkTables at hbad
  simp only [List.flatMap_eq_nil_iff, List.mem_map] at hbad
  obtain ⟨i, hi⟩ := List.mem_iff_getElem.1 hvs
  obtain ⟨hlt, hget⟩ := hi
  have hmem : (vs, i) ∈ (verdicts t).zipIdx := by
    rw [List.mem_zipIdx_iff_getElem?]
    simp [hget, List.getElem?_eq_getElem hlt]
  exact tally_bad_nil i vs (hbad _ ⟨(vs, i), hmem, rfl⟩)

end SA.DecTables
