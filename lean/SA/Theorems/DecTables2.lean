/-
Bridge theorems for the decision tables of `harness/dectables2.py` / `lean/SA/Model/DecTables2.lean`
(C11 / C12 / C13 / C18 / C19).

`*_eq_model`   the denotation of the MODEL's row is the model's function, for all inputs.
`*_bridge`     a translated row equal to the model's row denotes the model's function.
`QExp.eqv_sound`  expressions accepted modulo commutativity have the same value for every environment.
`checkTables2_sound`  what the generated theorem gives: no row has the verdict `mismatch`.
-/
import SA.Model.DecTables2
import SA.Theorems.DecTables
import Mathlib.Tactic.Ring
import Mathlib.Tactic.Linarith

namespace SA.DecTables2
open SA SA.DecTables

/-! ### (f) C11 -/

theorem samplingMethod_ne_dynamic (s : Scores) (c : BootCfg) : samplingMethod s c ≠ .dynamic := by
  unfold samplingMethod
  by_cases h : c.method ≠ .dynamic
  · rw [if_pos h]; exact h
  · rw [if_neg h]
    split <;> simp

/-- `_sampling_method`: the model's row denotes `samplingMethod` -/
theorem smRow_eq_model (s : Scores) (c : BootCfg) :
    (smRowModel (MKey.ofSM c.method) c.smoothing).eval s = MKey.ofSM (samplingMethod s c) := by
  unfold samplingMethod smRowModel SmRow.eval
  cases hm : c.method <;> cases hs : c.smoothing <;>
    simp [MKey.ofSM, SmRow.evalC, smallCond, SizeCond.evalC, SizeExp.evalC]
  by_cases h1 : s.pos.length < singlePassSampleThreshold <;>
    by_cases h2 : s.neg.length < singlePassSampleThreshold <;> simp [h1, h2, MKey.ofSM]

theorem sm_bridge (row : SmRow) (c : BootCfg) (h : row = smRowModel (MKey.ofSM c.method) c.smoothing)
    (s : Scores) : row.eval s = MKey.ofSM (samplingMethod s c) := by
  subst h; exact smRow_eq_model s c

/-- dispatch of `bootstrap_sample`: the model's row for the resolved method denotes `bootstrapSample` -/
theorem bsRow_eq_model (s : Scores) (c : BootCfg) (st : RngState) :
    (bsRowModel (MKey.ofSM (samplingMethod s c)) c.smoothing (StratKey.ofBool c.byLabel)
      c.ratio.isSome).eval s c st = bootstrapSample s c st := by
  have hd := samplingMethod_ne_dynamic s c
  unfold bootstrapSample
  cases hm : samplingMethod s c with
  | dynamic => exact absurd hm hd
  | replacement =>
    cases hb : c.byLabel <;> cases hs : c.smoothing <;> rfl
  | singlePass =>
    cases hb : c.byLabel <;> cases hs : c.smoothing <;> rfl
  | proportion =>
    cases hr : c.ratio with
    | none => rfl
    | some ratio =>
      simp only [bsRowModel, MKey.ofSM, Option.isSome, if_true, BsRow.eval, hr]
      rfl
  | unknown => rfl

theorem bs_bridge (row : BsRow) (s : Scores) (c : BootCfg)
    (h : row = bsRowModel (MKey.ofSM (samplingMethod s c)) c.smoothing (StratKey.ofBool c.byLabel) c.ratio.isSome)
    (st : RngState) : row.eval s c st = bootstrapSample s c st := by
  subst h; exact bsRow_eq_model s c st

/-- the two C11 tables composed: accepted rows describe `bootstrapSample` -/
theorem bootstrap_bridge (sm : SmRow) (c : BootCfg) (hsm : sm = smRowModel (MKey.ofSM c.method) c.smoothing)
    (s : Scores) (row : BsRow)
    (h : row = bsRowModel (sm.eval s) c.smoothing (StratKey.ofBool c.byLabel) c.ratio.isSome)
    (st : RngState) : row.eval s c st = bootstrapSample s c st := by
  rw [sm_bridge sm c hsm s] at h
  exact bs_bridge row s c h st

example : ∃ (sm : SmRow) (c : BootCfg) (s : Scores) (row : BsRow),
    sm = smRowModel (MKey.ofSM c.method) c.smoothing ∧
    row = bsRowModel (sm.eval s) c.smoothing (StratKey.ofBool c.byLabel) c.ratio.isSome ∧
    c.method = .dynamic ∧ s.pos ≠ [] :=
  ⟨_, ⟨.dynamic, true, false, none, fun r n => r * n⟩, ⟨[1, 2], [0], 1, 0, ⟨.pos, .pos⟩⟩, _, rfl, rfl, rfl, by simp⟩

/-- a stratification value other than `"by_label"` is treated as no stratification -/
theorem bsRowModel_other (m : MKey) (sm rg : Bool) : bsRowModel m sm .other rg = bsRowModel m sm .none rg := rfl

/-! ### expressions -/

theorem QExp.eqv_sound (a b : QExp) (h : a.eqv b = true) (env : QEnv) : a.eval env = b.eval env := by
  induction a generalizing b with
  | atom x => cases b <;> simp_all [QExp.eqv, QExp.eval]
  | lit n => cases b <;> simp_all [QExp.eqv, QExp.eval]
  | add a1 a2 ih1 ih2 =>
    cases b <;> simp only [QExp.eqv, Bool.false_eq_true] at h
    rename_i c d
    simp only [Bool.or_eq_true, Bool.and_eq_true] at h
    rcases h with ⟨h1, h2⟩ | ⟨h1, h2⟩
    · simp only [QExp.eval, ih1 _ h1, ih2 _ h2]
    · simp only [QExp.eval, ih1 _ h1, ih2 _ h2]; exact Rat.add_comm _ _
  | mul a1 a2 ih1 ih2 =>
    cases b <;> simp only [QExp.eqv, Bool.false_eq_true] at h
    rename_i c d
    simp only [Bool.or_eq_true, Bool.and_eq_true] at h
    rcases h with ⟨h1, h2⟩ | ⟨h1, h2⟩
    · simp only [QExp.eval, ih1 _ h1, ih2 _ h2]
    · simp only [QExp.eval, ih1 _ h1, ih2 _ h2]; exact Rat.mul_comm _ _
  | sub a1 a2 ih1 ih2 =>
    cases b <;> simp only [QExp.eqv, Bool.false_eq_true] at h
    simp only [Bool.and_eq_true] at h
    simp only [QExp.eval, ih1 _ h.1, ih2 _ h.2]
  | div a1 a2 ih1 ih2 =>
    cases b <;> simp only [QExp.eqv, Bool.false_eq_true] at h
    simp only [Bool.and_eq_true] at h
    simp only [QExp.eval, ih1 _ h.1, ih2 _ h.2]
  | neg a1 ih =>
    cases b <;> simp only [QExp.eqv, Bool.false_eq_true] at h
    simp only [QExp.eval, ih _ h]

/-- verdict `ok` of an expression field: same value as the model's expression, for every environment -/
theorem cmpQ_ok_sound (model got : QExp) (h : cmpQ model got = .ok) (env : QEnv) :
    got.eval env = model.eval env := by
  unfold cmpQ at h
  by_cases he : got.eqv model = true
  · exact QExp.eqv_sound got model he env
  · by_cases hp : got.agreesOnProbes model = true <;> simp [he, hp] at h

/-! ### (g) C13 -/

/-- the levels of the quantile method -/
theorem alphaE_eq_model (env : QEnv) :
    alphaLoE.eval env = env.alpha / 2 ∧ alphaHiE.eval env = 1 - env.alpha / 2 := by
  constructor <;> simp [alphaLoE, alphaHiE, QExp.eval, QEnv.get]

/-- BC: for finite `z0`, `z_alpha` the model's expression is `adjustedZ .bc` -/
theorem bcE_eq_model (a z0 za alpha : Rat) :
    ERat.fin (bcE.eval ⟨alpha, z0, za, a⟩) = adjustedZ .bc a (.fin z0) (.fin za) := by
  simp [bcE, QExp.eval, QEnv.get, adjustedZ, ERat.add, ERat.double]

/-- BCa: for finite `z0`, `z_alpha` the model's expression is `adjustedZ .bca` -/
theorem bcaE_eq_model (a z0 za alpha : Rat) :
    ERat.fin (bcaE.eval ⟨alpha, z0, za, a⟩) = adjustedZ .bca a (.fin z0) (.fin za) := by
  simp [bcaE, sE, QExp.eval, QEnv.get, adjustedZ]

/-- a translated level accepted by `cmpQ` denotes the model's adjusted level (finite case) -/
theorem level_bridge (m : BootMethod) (model got : QExp)
    (hm : (m = .bc ∧ model = bcE) ∨ (m = .bca ∧ model = bcaE))
    (h : cmpQ model got = .ok) (a z0 za alpha : Rat) :
    ERat.fin (got.eval ⟨alpha, z0, za, a⟩) = adjustedZ m a (.fin z0) (.fin za) := by
  rw [cmpQ_ok_sound model got h]
  rcases hm with ⟨rfl, rfl⟩ | ⟨rfl, rfl⟩
  · exact bcE_eq_model a z0 za alpha
  · exact bcaE_eq_model a z0 za alpha

theorem p0Row_eq_model (vals : List (Option Rat)) (thetaHat : Rat) :
    p0RowModel.eval vals thetaHat = fracLe vals thetaHat := by
  simp [P0Row.eval, p0RowModel, fracLe, CmpOp.eval]

private theorem powN3 (x : Rat) : powN x 3 = x * x * x := by
  simp [powN]

private theorem powN2 (x : Rat) : powN x 2 = x * x := by
  simp [powN]

theorem accRow_eq_model (pow15 : Rat → Rat) (vals : List (Option Rat)) (thetaHat : Rat) :
    accRowModel.eval pow15 vals thetaHat = acceleration pow15 vals thetaHat := by
  simp only [AccRow.eval, accRowModel, acceleration, powN3, powN2, if_true]
  rfl

/-! ### (h) C19 -/

theorem fraudRow_eq_model (genuines frauds : List Rat) (easyG easyF : Nat) (sc : DocLabel) :
    (fraudRowModel sc).eval genuines frauds easyG easyF = FraudScores.make genuines frauds easyG easyF sc := by
  unfold FraudRow.eval fraudRowModel FraudScores.make
  simp only [selDoc, List.any_cons, List.any_nil, Bool.or_false, RangeCheck.fails, selArr, outOfRange, CmpOp.eval]
  by_cases h1 : outOfRange (Scores.make genuines frauds easyG easyF ⟨docToBinary sc, docToBinary .genuine⟩ false).pos = true
  · simp only [outOfRange] at h1
    simp [h1, outOfRange]
  · simp only [outOfRange] at h1
    simp [h1, outOfRange]

theorem fraud_bridge (row : FraudRow) (sc : DocLabel) (h : row = fraudRowModel sc)
    (genuines frauds : List Rat) (easyG easyF : Nat) :
    row.eval genuines frauds easyG easyF = FraudScores.make genuines frauds easyG easyF sc := by
  subst h; exact fraudRow_eq_model genuines frauds easyG easyF sc

/-! ### (i) C12 -/

theorem gsmRow_eq_model (g : GScores) (c : GBootCfg) :
    (gsmRowModel ⟨MKey.ofSM c.method, c.strat⟩).evalC g.pos.length g.neg.length =
      MKey.ofSM (g.samplingMethod c) := by
  unfold GScores.samplingMethod gsmRowModel
  cases hm : c.method <;> simp [MKey.ofSM, SmRow.evalC]
  by_cases hg : c.strat = .byGroup
  · simp [hg, SmRow.evalC, MKey.ofSM]
  · simp only [hg, if_false, SmRow.evalC, smallCond, SizeCond.evalC, SizeExp.evalC]
    by_cases h1 : g.pos.length < singlePassSampleThreshold <;>
      by_cases h2 : g.neg.length < singlePassSampleThreshold <;> simp [h1, h2, MKey.ofSM]

theorem gsamplingMethod_ne_dynamic (g : GScores) (c : GBootCfg) : g.samplingMethod c ≠ .dynamic := by
  unfold GScores.samplingMethod
  by_cases h : c.method ≠ .dynamic
  · rw [if_pos h]; exact h
  · rw [if_neg h]
    split
    · simp
    · split <;> simp

theorem gsRow_eq_model (g : GScores) (c : GBootCfg) (st : RngState) :
    (gsRowModel ⟨MKey.ofSM (g.samplingMethod c), c.smoothing, c.strat⟩).eval g st = g.bootstrapSample c st := by
  have hd := gsamplingMethod_ne_dynamic g c
  unfold GScores.bootstrapSample gsRowModel
  cases hs : c.smoothing
  · cases hm : g.samplingMethod c with
    | dynamic => exact absurd hm hd
    | replacement => cases hst : c.strat <;> rfl
    | singlePass => cases hst : c.strat <;> rfl
    | proportion => rfl
    | unknown => rfl
  · rfl

theorem gs_bridge (row : GsRow) (g : GScores) (c : GBootCfg)
    (h : row = gsRowModel ⟨MKey.ofSM (g.samplingMethod c), c.smoothing, c.strat⟩) (st : RngState) :
    row.eval g st = g.bootstrapSample c st := by
  subst h; exact gsRow_eq_model g c st

/-! ### (j) C18 -/

theorem nmRow_eq_model (col : List (Option Rat)) (overall : Option Rat) :
    (nmRowModel .byOverall).eval col overall = .ok (normaliseCol .byOverall col overall) ∧
    (nmRowModel .byMin).eval col overall = .ok (normaliseCol .byMin col overall) ∧
    (nmRowModel .other).eval col overall = .error .valueError := ⟨rfl, rfl, rfl⟩

/-- the `other` row is the model's `parseNormMode` on any string that is not a mode name -/
theorem nmRow_other_eq_model : parseNormMode (some "no-such-mode") = .error .valueError := by decide

/-! ### what the generated theorem gives -/

private theorem tally_bad_nil2 (tbl : Nat) (vs : List Verdict) (h : (tally tbl vs).1 = []) :
    ∀ v ∈ vs, v ≠ .mismatch := by
  intro v hv hm
  subst hm
  unfold tally at h
  simp only [List.map_eq_nil_iff, List.filter_eq_nil_iff] at h
  obtain ⟨i, hi⟩ := List.mem_iff_getElem.1 hv
  obtain ⟨hlt, hget⟩ := hi
  have hmem : (Verdict.mismatch, i) ∈ vs.zipIdx := by
    rw [List.mem_zipIdx_iff_getElem?]
    simp [hget, List.getElem?_eq_getElem hlt]
  exact (h _ hmem) (by simp)

/-- `checkTables2 t = ⟨true, [], n⟩` (the generated theorem): no row of any table is a mismatch -/
theorem checkTables2_sound (t : Translated2) (n : Nat) (h : checkTables2 t = ⟨true, [], n⟩) :
    ∀ vs ∈ verdicts2 t, ∀ v ∈ vs, v ≠ .mismatch := by
  intro vs hvs
  have hbad : (checkTables2 t).bad = [] := by rw [h]
  unfold checkTables2 at hbad
  simp only [List.flatMap_eq_nil_iff, List.mem_map] at hbad
  obtain ⟨i, hi⟩ := List.mem_iff_getElem.1 hvs
  obtain ⟨hlt, hget⟩ := hi
  have hmem : (vs, i) ∈ (verdicts2 t).zipIdx := by
    rw [List.mem_zipIdx_iff_getElem?]
    simp [hget, List.getElem?_eq_getElem hlt]
  exact tally_bad_nil2 i vs (hbad _ ⟨(vs, i), hmem, rfl⟩)

/-- verdict `ok` of the plain tables: the translated row IS the model's row -/
theorem cmpSm_ok_iff (model r : SmRow) : cmpSm model (some r) = .ok ↔ r = model := by
  unfold cmpSm
  by_cases h : r = model
  · simp [h]
  · simp only [h, if_false]
    constructor
    · intro h'; split at h' <;> cases h'
    · intro h'; exact h'.elim

theorem cmpBs_ok_iff (model r : BsRow) : cmpBs model (some r) = .ok ↔ r = model := by
  unfold cmpBs
  by_cases h : r = model
  · simp [h]
  · simp only [h, if_false]
    constructor
    · intro h'; split at h' <;> cases h'
    · intro h'; exact h'.elim

end SA.DecTables2
