/-
C07, floating point: the trapezoid part of `Scores.auc` (scores.py:839-860) evaluated with a
rounding after every operation NumPy performs, against the exact model `Scores.auc`.

Float model (`SA/Model/FloatSum.lean`), for every `fl`, `u` with `Fl fl u` (`|fl v - v| ≤ u |v|`):
* every rate is ONE rounded quotient `fl (count / N)` (`np.divide` of two exactly represented
  integers), the limits are `fl lower`, `fl upper` (the identity for limits that are doubles; the
  harness hands `k / N` to the model when the double limit is the rounding of `k / N`);
* `np.diff(x)`: `fl (x1 - x0)`; `y[1:] + y[:-1]`: `fl (y1 + y0)`; the product; `/ 2.0`: one `fl` each;
* `.sum()`: ANY summation order (`SumTree` whose leaves are a permutation of the term positions:
  left-to-right, NumPy's pairwise summation with unrolled accumulators, blocked reductions, ...);
  the bound depends on the number of terms only;
* `np.abs`, the reversal, `searchsorted`, the window cut, `np.concatenate`: no rounding.

Statements:
* `trapTerm_fl_error`     one term, inputs carrying one rounding each
* `trapezoid_fl_error`    `|trapezoidFl - trapezoid| ≤ ((1+u)^(n-1) - 1) Σ(|T_i| + e_i) + Σ e_i`
* `auc_fl_error_pow`, `aucEpsPow_le_aucEps`, **`auc_fl_error`**: the same after `np.abs`, and with the
  executable bound `aucEps`: `(n-1) u / (1 - (n-1) u)` in place of `(1+u)^(n-1) - 1`
  (`gamPow_le_gamK`) and the closed form `e_i ≤ (1+u)^4 u (K_i + u K2_i)` of the term errors
  (`trapTermErr_le`), so that the driver only adds up small rationals
* `fl_lt_iff`, `fl_le_iff`  separated values compare the same way after rounding
* `Scores.auc_eq_arrays`, **`Scores.auc_fl_error`**: `Scores.aucFl` against `Scores.auc` under the
  executable guard `aucCmpOK` (every comparison of the code is between separated values)
* `Scores.aucFl_id`       with `fl = id` the float version is the exact model
-/
import SA.Proofs.FloatSum
import SA.Proofs.Quantile
import SA.Theorems.C07

namespace SA

/-! ## A. one term -/

theorem roundErr_nonneg {u v e : ℚ} (hu : 0 ≤ u) (he : 0 ≤ e) : 0 ≤ FExpr.roundErr u v e := by
  unfold FExpr.roundErr
  have := fabs_nonneg v
  have : 0 ≤ u * (fabs v + e) := mul_nonneg hu (by linarith)
  linarith

theorem trapTermErr_nonneg {u : ℚ} (hu : 0 ≤ u) (x0 x1 y0 y1 : ℚ) :
    0 ≤ trapTermErr u x0 x1 y0 y1 := by
  unfold trapTermErr
  have a0 := fabs_nonneg x0
  have a1 := fabs_nonneg x1
  have b0 := fabs_nonneg y0
  have b1 := fabs_nonneg y1
  have hd : 0 ≤ FExpr.roundErr u (x1 - x0) (u * fabs x1 + u * fabs x0) :=
    roundErr_nonneg hu (by positivity)
  have hs : 0 ≤ FExpr.roundErr u (y0 + y1) (u * fabs y1 + u * fabs y0) :=
    roundErr_nonneg hu (by positivity)
  have c0 := fabs_nonneg (y0 + y1)
  have c1 := fabs_nonneg (x1 - x0)
  exact roundErr_nonneg hu (div_nonneg (roundErr_nonneg hu (by positivity)) (by norm_num))

/-- **One term of `np.trapezoid`.** `fl (fl (fl (x1~ - x0~) * fl (y1~ + y0~)) / 2)` against
`(x1 - x0) * (y0 + y1) / 2` when each input carries one rounding. -/
theorem trapTerm_fl_error {fl : ℚ → ℚ} {u : ℚ} (h : Fl fl u) {x0 x1 y0 y1 x0t x1t y0t y1t : ℚ}
    (hx0 : |x0t - x0| ≤ u * |x0|) (hx1 : |x1t - x1| ≤ u * |x1|)
    (hy0 : |y0t - y0| ≤ u * |y0|) (hy1 : |y1t - y1| ≤ u * |y1|) :
    |trapTermFl fl x0t x1t y0t y1t - trapTerm x0 x1 y0 y1| ≤ trapTermErr u x0 x1 y0 y1 := by
  have hd := h.sub_round hx1 hx0
  have hs := h.add_round hy1 hy0
  rw [add_comm y1 y0] at hs
  have hp := h.mul_round hd hs
  have h2 : |fl (fl (x1t - x0t) * fl (y1t + y0t)) / 2 - (x1 - x0) * (y0 + y1) / 2| ≤
      ((u * |x1| + u * |x0| + u * (|x1 - x0| + (u * |x1| + u * |x0|))) * |y0 + y1| +
        (u * |y1| + u * |y0| + u * (|y0 + y1| + (u * |y1| + u * |y0|))) * |x1 - x0| +
        (u * |x1| + u * |x0| + u * (|x1 - x0| + (u * |x1| + u * |x0|))) *
          (u * |y1| + u * |y0| + u * (|y0 + y1| + (u * |y1| + u * |y0|))) +
        u * (|(x1 - x0) * (y0 + y1)| +
          ((u * |x1| + u * |x0| + u * (|x1 - x0| + (u * |x1| + u * |x0|))) * |y0 + y1| +
            (u * |y1| + u * |y0| + u * (|y0 + y1| + (u * |y1| + u * |y0|))) * |x1 - x0| +
            (u * |x1| + u * |x0| + u * (|x1 - x0| + (u * |x1| + u * |x0|))) *
              (u * |y1| + u * |y0| + u * (|y0 + y1| + (u * |y1| + u * |y0|)))))) / 2 := by
    rw [← sub_div, abs_div, abs_of_pos (by norm_num : (0 : ℚ) < 2)]
    exact div_le_div_of_nonneg_right hp (by norm_num)
  have h3 := h.round_err h2
  simp only [trapTermFl, trapTerm, trapTermErr, FExpr.roundErr, fabs_eq_abs]
  exact h3

/-! ## B. the list of terms, the sum -/

/-- `xt` is `x` with one rounding per entry -/
def RelClose (u : ℚ) (xt x : List ℚ) : Prop := List.Forall₂ (fun a' a => |a' - a| ≤ u * |a|) xt x

theorem relClose_map {fl : ℚ → ℚ} {u : ℚ} (h : Fl fl u) (x : List ℚ) : RelClose u (x.map fl) x := by
  unfold RelClose
  induction x with
  | nil => exact .nil
  | cons a x ih => exact .cons (h.rel a) ih

/-- the rounded terms are termwise within `trapTermErr` of the exact terms -/
theorem trapTerms_fl_close {fl : ℚ → ℚ} {u : ℚ} (h : Fl fl u) :
    ∀ (x y xt yt : List ℚ), RelClose u xt x → RelClose u yt y →
      List.Forall₂ (fun t' (p : ℚ × ℚ) => |t' - p.1| ≤ p.2) (trapTermsFl fl xt yt) (trapTE u x y) := by
  intro x
  induction x with
  | nil =>
    intro y xt yt hx _
    cases hx
    simp only [trapTermsFl, trapTE]
    exact .nil
  | cons x0 x ih =>
    intro y xt yt hx hy
    cases hx with
    | cons hx0 hxr =>
      cases hxr with
      | nil =>
        simp only [trapTermsFl, trapTE]
        exact .nil
      | cons hx1 hxr =>
        cases hy with
        | nil =>
          simp only [trapTermsFl, trapTE]
          exact .nil
        | cons hy0 hyr =>
          cases hyr with
          | nil =>
            simp only [trapTermsFl, trapTE]
            exact .nil
          | cons hy1 hyr =>
            simp only [trapTermsFl, trapTE]
            exact .cons (trapTerm_fl_error h hx0 hx1 hy0 hy1)
              (ih _ _ _ (.cons hx1 hxr) (.cons hy1 hyr))

/-- sums of termwise close lists -/
theorem sum_close : ∀ (tt : List ℚ) (P : List (ℚ × ℚ)),
    List.Forall₂ (fun t' (p : ℚ × ℚ) => |t' - p.1| ≤ p.2) tt P →
      |sumL tt - sumL (P.map (·.1))| ≤ sumErrTE P ∧ sumAbsL tt ≤ sumMagTE P ∧
        tt.length = P.length := by
  intro tt P hf
  induction hf with
  | nil => simp [sumL, sumErrTE, sumAbsL, sumMagTE]
  | @cons t' p tt P hp _ ih =>
    obtain ⟨i1, i2, i3⟩ := ih
    simp only [sumL, List.map_cons, sumErrTE, sumAbsL, sumMagTE, List.length_cons, fabs_eq_abs]
    refine ⟨?_, ?_, by omega⟩
    · have e : t' + sumL tt - (p.1 + sumL (P.map (·.1))) =
          (t' - p.1) + (sumL tt - sumL (P.map (·.1))) := by ring
      rw [e]
      have := abs_add_le (t' - p.1) (sumL tt - sumL (P.map (·.1)))
      linarith
    · have : |t'| ≤ |p.1| + p.2 := by
        have := abs_add_le (t' - p.1) p.1
        rw [sub_add_cancel] at this
        linarith
      linarith

theorem sumErrTE_nonneg {u : ℚ} (hu : 0 ≤ u) : ∀ x y : List ℚ, 0 ≤ sumErrTE (trapTE u x y) := by
  intro x y
  fun_induction trapTE u x y with
  | case1 x0 x1 xs y0 y1 ys ih =>
    simp only [sumErrTE]
    have := trapTermErr_nonneg hu x0 x1 y0 y1
    linarith
  | case2 => exact le_refl 0

theorem sumMagTE_nonneg {u : ℚ} (hu : 0 ≤ u) : ∀ x y : List ℚ, 0 ≤ sumMagTE (trapTE u x y) := by
  intro x y
  fun_induction trapTE u x y with
  | case1 x0 x1 xs y0 y1 ys ih =>
    simp only [sumMagTE]
    have := trapTermErr_nonneg hu x0 x1 y0 y1
    have := fabs_nonneg (trapTerm x0 x1 y0 y1)
    linarith
  | case2 => exact le_refl 0

/-- `np.trapezoid` is the sum of its terms -/
theorem trapezoid_eq_sum (u : ℚ) : ∀ x y : List ℚ, trapezoid x y = sumL ((trapTE u x y).map (·.1)) := by
  intro x y
  fun_induction trapTE u x y with
  | case1 x0 x1 xs y0 y1 ys ih =>
    simp only [trapezoid, List.map_cons, sumL, ih, trapTerm]
  | case2 x y hne =>
    simp only [List.map_nil, sumL]
    unfold trapezoid
    split
    · exact absurd rfl (hne _ _ _ _ _ _ rfl)
    · rfl

/-- number of terms: one less than the shorter array -/
theorem trapTE_length (u : ℚ) : ∀ x y : List ℚ,
    (trapTE u x y).length = min x.length y.length - 1 := by
  intro x y
  fun_induction trapTE u x y with
  | case1 x0 x1 xs y0 y1 ys ih =>
    simp only [List.length_cons, ih]
    omega
  | case2 x y hne =>
    simp only [List.length_nil]
    match x, y, hne with
    | [], _, _ => simp
    | [_], _, _ => simp
    | _ :: _ :: _, [], _ => simp
    | _ :: _ :: _, [_], _ => simp
    | x0 :: x1 :: xs, y0 :: y1 :: ys, hne => exact absurd rfl (hne _ _ _ _ _ _ rfl)

/-- **`np.trapezoid` in floating point, any summation order.** -/
theorem trapezoid_fl_error {fl : ℚ → ℚ} {u : ℚ} (h : Fl fl u) (t : SumTree)
    (x y xt yt : List ℚ) (hx : RelClose u xt x) (hy : RelClose u yt y)
    (ht : t.leaves.Perm (List.range (trapTE u x y).length)) :
    |trapezoidFl fl t xt yt - trapezoid x y| ≤ aucEpsPow u x y := by
  obtain ⟨c1, c2, c3⟩ := sum_close _ _ (trapTerms_fl_close h x y xt yt hx hy)
  rw [← c3] at ht
  have e := SumTree.evalFl_error_perm h _ t ht
  rw [c3] at e
  unfold trapezoidFl aucEpsPow aucEpsWith
  simp only []
  rw [trapezoid_eq_sum u]
  set tt := trapTermsFl fl xt yt
  set P := trapTE u x y
  have g0 := gamPow_nonneg h.u_nonneg (P.length - 1)
  have e2 : gamPow u (P.length - 1) * sumAbsL tt ≤ gamPow u (P.length - 1) * sumMagTE P :=
    mul_le_mul_of_nonneg_left c2 g0
  have tri := abs_add_le (t.evalFl fl tt - sumL tt) (sumL tt - sumL (P.map (·.1)))
  rw [sub_add_sub_cancel] at tri
  linarith

theorem absR_eq_abs (v : ℚ) : absR v = |v| := by
  unfold absR
  by_cases hv : v < 0
  · rw [if_pos hv, abs_of_neg hv]
  · rw [if_neg hv, abs_of_nonneg (not_lt.mp hv)]

/-- `np.abs(np.trapezoid(y, x))`, exact growth factor -/
theorem auc_fl_error_pow {fl : ℚ → ℚ} {u : ℚ} (h : Fl fl u) (t : SumTree)
    (x y xt yt : List ℚ) (hx : RelClose u xt x) (hy : RelClose u yt y)
    (ht : t.leaves.Perm (List.range (trapTE u x y).length)) :
    |absR (trapezoidFl fl t xt yt) - absR (trapezoid x y)| ≤ aucEpsPow u x y := by
  rw [absR_eq_abs, absR_eq_abs]
  exact le_trans (abs_abs_sub_abs_le_abs_sub _ _) (trapezoid_fl_error h t x y xt yt hx hy ht)

/-- the exact growth factor is at most the cheap one (for `(n-1) u < 1`) -/
theorem aucEpsPow_le_aucEpsTE {u : ℚ} (hu : 0 ≤ u) (x y : List ℚ)
    (hk : (((trapTE u x y).length - 1 : ℕ) : ℚ) * u < 1) : aucEpsPow u x y ≤ aucEpsTE u x y := by
  unfold aucEpsPow aucEpsTE aucEpsWith
  simp only []
  have := mul_le_mul_of_nonneg_right (gamPow_le_gamK hu _ hk) (sumMagTE_nonneg hu x y)
  linarith

/-- **closed form of a term's error**: `trapTermErr ≤ (1+u)^4 u (K + u K2)`; the difference is
`u^2 |D| |S| (10 + 20 u + 15 u^2 + 4 u^3) / 2` -/
theorem trapTermErr_le {u : ℚ} (hu : 0 ≤ u) (x0 x1 y0 y1 : ℚ) :
    trapTermErr u x0 x1 y0 y1 ≤
      powN (1 + u) 4 * u * (trapTermK x0 x1 y0 y1 + u * trapTermK2 x0 x1 y0 y1) := by
  simp only [trapTermErr, FExpr.roundErr, trapTermK, trapTermK2, powN_eq, fabs_eq_abs, abs_mul,
    abs_div, abs_of_pos (by norm_num : (0 : ℚ) < 2)]
  have hd := abs_nonneg (x1 - x0)
  have hs := abs_nonneg (y0 + y1)
  set A := |x1| + |x0|
  set B := |y1| + |y0|
  set d := |x1 - x0|
  set s := |y0 + y1|
  have e1 : u * |x1| + u * |x0| = u * A := by ring
  have e2 : u * |y1| + u * |y0| = u * B := by ring
  rw [e1, e2]
  have key : (1 + u) ^ 4 * u * ((A * s + B * d + 4 * (d * s)) / 2 + u * (A * B / 2)) -
      (((u * A + u * (d + u * A)) * s + (u * B + u * (s + u * B)) * d +
            (u * A + u * (d + u * A)) * (u * B + u * (s + u * B)) +
          u * (d * s + ((u * A + u * (d + u * A)) * s + (u * B + u * (s + u * B)) * d +
            (u * A + u * (d + u * A)) * (u * B + u * (s + u * B))))) / 2 +
        u * (d * s / 2 + ((u * A + u * (d + u * A)) * s + (u * B + u * (s + u * B)) * d +
            (u * A + u * (d + u * A)) * (u * B + u * (s + u * B)) +
          u * (d * s + ((u * A + u * (d + u * A)) * s + (u * B + u * (s + u * B)) * d +
            (u * A + u * (d + u * A)) * (u * B + u * (s + u * B))))) / 2)) =
      u ^ 2 * (d * s) * (10 + 20 * u + 15 * u ^ 2 + 4 * u ^ 3) / 2 := by ring
  have : 0 ≤ u ^ 2 * (d * s) * (10 + 20 * u + 15 * u ^ 2 + 4 * u ^ 3) / 2 := by positivity
  linarith

theorem trapSums_bound {u : ℚ} (hu : 0 ≤ u) : ∀ x y : List ℚ,
    sumErrTE (trapTE u x y) ≤
        powN (1 + u) 4 * u * ((trapSums x y).2.1 + u * (trapSums x y).2.2) ∧
      sumMagTE (trapTE u x y) ≤ (trapSums x y).1 +
        powN (1 + u) 4 * u * ((trapSums x y).2.1 + u * (trapSums x y).2.2) := by
  intro x y
  fun_induction trapTE u x y with
  | case1 x0 x1 xs y0 y1 ys ih =>
    obtain ⟨i1, i2⟩ := ih
    have ht := trapTermErr_le hu x0 x1 y0 y1
    simp only [sumErrTE, sumMagTE, trapSums]
    constructor
    · nlinarith [ht, i1]
    · nlinarith [ht, i2]
  | case2 x y hne =>
    have : trapSums x y = (0, 0, 0) := by
      unfold trapSums
      split
      · exact absurd rfl (hne _ _ _ _ _ _ rfl)
      · rfl
    simp [this, sumErrTE, sumMagTE]

/-- **the proved bound is at most the executable one** -/
theorem aucEpsTE_le_aucEps {u : ℚ} (hu : 0 ≤ u) (x y : List ℚ)
    (hk : (((trapTE u x y).length - 1 : ℕ) : ℚ) * u < 1) : aucEpsTE u x y ≤ aucEps u x y := by
  obtain ⟨b1, b2⟩ := trapSums_bound hu x y
  unfold aucEpsTE aucEps aucEpsWith
  simp only []
  rw [trapTE_length] at hk ⊢
  have g0 := gamK_nonneg hu _ hk
  have := mul_le_mul_of_nonneg_left b2 g0
  linarith

theorem aucEpsPow_le_aucEps {u : ℚ} (hu : 0 ≤ u) (x y : List ℚ)
    (hk : (((trapTE u x y).length - 1 : ℕ) : ℚ) * u < 1) : aucEpsPow u x y ≤ aucEps u x y :=
  le_trans (aucEpsPow_le_aucEpsTE hu x y hk) (aucEpsTE_le_aucEps hu x y hk)

/-- **`auc_fl_error`.** `np.abs(np.trapezoid(y~, x~))` computed in floating point — inputs with one
rounding each, four rounded operations per term, the terms added in ANY order — is within the
executable `aucEps u x y` of the exact value. -/
theorem auc_fl_error {fl : ℚ → ℚ} {u : ℚ} (h : Fl fl u) (t : SumTree)
    (x y xt yt : List ℚ) (hx : RelClose u xt x) (hy : RelClose u yt y)
    (ht : t.leaves.Perm (List.range (trapTE u x y).length))
    (hk : (((trapTE u x y).length - 1 : ℕ) : ℚ) * u < 1) :
    |absR (trapezoidFl fl t xt yt) - absR (trapezoid x y)| ≤ aucEps u x y :=
  le_trans (auc_fl_error_pow h t x y xt yt hx hy ht) (aucEpsPow_le_aucEps h.u_nonneg x y hk)

/-! ## C. comparisons on rounded values -/

/-- separated values keep their strict order under ANY rounding of the model -/
theorem fl_lt_iff {fl : ℚ → ℚ} {u : ℚ} (h : Fl fl u) {a b : ℚ} (hs : flSep u a b = true) :
    fl a < fl b ↔ a < b := by
  unfold flSep at hs
  simp only [Bool.or_eq_true, decide_eq_true_eq, fabs_eq_abs] at hs
  rcases hs with rfl | hs
  · simp
  · have ha := abs_le.mp (h.rel a)
    have hb := abs_le.mp (h.rel b)
    rcases lt_or_ge a b with hab | hba
    · have e : |a - b| = b - a := by rw [abs_of_neg (by linarith)]; ring
      rw [e] at hs
      constructor
      · intro _; exact hab
      · intro _; nlinarith [ha.2, hb.1]
    · have e : |a - b| = a - b := abs_of_nonneg (by linarith)
      rw [e] at hs
      constructor
      · intro hlt; nlinarith [ha.1, hb.2]
      · intro hlt; linarith

theorem flSep_symm (u a b : ℚ) : flSep u a b = flSep u b a := by
  unfold flSep
  rw [abs_sub_comm' a b, add_comm (fabs a)]
  congr 1
  exact decide_eq_decide.mpr eq_comm
where
  abs_sub_comm' (a b : ℚ) : fabs (a - b) = fabs (b - a) := by
    rw [fabs_eq_abs, fabs_eq_abs, abs_sub_comm]

theorem fl_le_iff {fl : ℚ → ℚ} {u : ℚ} (h : Fl fl u) {a b : ℚ} (hs : flSep u a b = true) :
    fl a ≤ fl b ↔ a ≤ b := by
  rw [flSep_symm] at hs
  have := fl_lt_iff h hs
  rw [← not_lt, ← not_lt, this]

theorem getD_map_fl {fl : ℚ → ℚ} {u : ℚ} (h : Fl fl u) (x : List ℚ) (i : ℕ) :
    (x.map fl).getD i 0 = fl (x.getD i 0) := by
  by_cases hi : i < x.length
  · simp [List.getD_eq_getElem?_getD, hi]
  · have hi' : x.length ≤ i := not_lt.mp hi
    simp [List.getD_eq_getElem?_getD, List.getElem?_eq_none hi', h.zero]

theorem fauc_getD_mem_of_lt (x : List ℚ) (i : ℕ) (hi : i < x.length) : x.getD i 0 ∈ x := by
  have : x.getD i 0 = x[i] := by simp [List.getD_eq_getElem?_getD, List.getElem?_eq_getElem hi]
  rw [this]; exact List.getElem_mem hi

/-- binary search depends only on the predicate's values along the array -/
theorem bisectAux_congr (p p' : ℚ → Bool) (a a' : List ℚ) (_hl : a'.length = a.length)
    (hp : ∀ i, i < a.length → p' (a'.getD i 0) = p (a.getD i 0)) :
    ∀ (n lo hi : ℕ), hi - lo = n → hi ≤ a.length → bisectAux p' a' lo hi = bisectAux p a lo hi := by
  intro n
  induction n using Nat.strong_induction_on with
  | _ n ih =>
    intro lo hi hn hsz
    rw [bisectAux, bisectAux.eq_1 p a]
    by_cases hlt : lo < hi
    · simp only [hlt, if_true]
      have hmid : lo + (hi - lo) / 2 < a.length := by omega
      rw [hp _ hmid]
      by_cases hm : p (a.getD (lo + (hi - lo) / 2) 0) = true
      · simp only [hm, if_true]
        exact ih (hi - (lo + (hi - lo) / 2 + 1)) (by omega) _ _ rfl hsz
      · simp only [hm]
        exact ih ((lo + (hi - lo) / 2) - lo) (by omega) _ _ rfl (by omega)
    · simp only [hlt, if_false]

theorem bisect_map_fl {fl : ℚ → ℚ} {u : ℚ} (h : Fl fl u) (p p' : ℚ → Bool) (x : List ℚ)
    (hp : ∀ v ∈ x, p' (fl v) = p v) : bisect p' (x.map fl) = bisect p x := by
  unfold bisect
  rw [List.length_map]
  exact bisectAux_congr p p' x (x.map fl) (List.length_map _) (fun i hi => by
    rw [getD_map_fl h]; exact hp _ (fauc_getD_mem_of_lt x i hi)) _ 0 x.length rfl (le_refl _)

/-- **The window cut is the same on the rounded arrays**: under the guard every comparison has the
same outcome, so the float code hands `np.trapezoid` the roundings of the exact model's arrays. -/
theorem aucCut_map {fl : ℚ → ℚ} {u : ℚ} (h : Fl fl u) (x y : List ℚ) (lower upper : ℚ)
    (hg : aucCmpOK u x lower upper = true) :
    aucCut (x.map fl) (y.map fl) (fl lower) (fl upper) =
      ((aucCut x y lower upper).1.map fl, (aucCut x y lower upper).2.map fl) := by
  unfold aucCmpOK at hg
  simp only [Bool.and_eq_true, List.all_eq_true] at hg
  obtain ⟨g0, g1⟩ := hg
  have hrev : decide ((x.map fl).getD ((x.map fl).length - 1) 0 < (x.map fl).getD 0 0) =
      decide (x.getD (x.length - 1) 0 < x.getD 0 0) := by
    rw [List.length_map, getD_map_fl h, getD_map_fl h]
    exact decide_eq_decide.mpr (fl_lt_iff h g0)
  unfold aucCut
  simp only [hrev]
  -- the (possibly reversed) arrays
  set rev := decide (x.getD (x.length - 1) 0 < x.getD 0 0)
  have ex : (if rev = true then (x.map fl).reverse else x.map fl) =
      (if rev = true then x.reverse else x).map fl := by
    cases rev <;> simp [List.map_reverse]
  have ey : (if rev = true then (y.map fl).reverse else y.map fl) =
      (if rev = true then y.reverse else y).map fl := by
    cases rev <;> simp [List.map_reverse]
  rw [ex, ey]
  have hmem : ∀ v ∈ (if rev = true then x.reverse else x), v ∈ x := by
    intro v hv
    split at hv
    · exact List.mem_reverse.mp hv
    · exact hv
  set x' := if rev = true then x.reverse else x
  set y' := if rev = true then y.reverse else y
  have bl : bisect (fun v => decide (v < fl lower)) (x'.map fl) =
      bisect (fun v => decide (v < lower)) x' :=
    bisect_map_fl h _ _ x' (fun v hv =>
      decide_eq_decide.mpr (fl_lt_iff h (g1 v (hmem v hv)).1))
  have br : bisect (fun v => decide (v ≤ fl upper)) (x'.map fl) =
      bisect (fun v => decide (v ≤ upper)) x' :=
    bisect_map_fl h _ _ x' (fun v hv =>
      decide_eq_decide.mpr (fl_le_iff h (g1 v (hmem v hv)).2))
  rw [bl, br, List.length_map]
  simp only [List.map_append, List.map_cons, List.map_nil, List.map_take, List.map_drop,
    getD_map_fl h]

/-! ## D. `Scores.auc` -/

theorem allSome_length : ∀ (l : List (Option ℚ)) (r : List ℚ), allSome l = some r → r.length = l.length
  | [], r, hr => by simp only [allSome, Option.some.injEq] at hr; subst hr; rfl
  | none :: _, r, hr => by simp [allSome] at hr
  | some a :: rest, r, hr => by
    simp only [allSome, Option.map_eq_some_iff] at hr
    obtain ⟨r', hr', rfl⟩ := hr
    simp [allSome_length rest r' hr']

theorem aucRates_length (ulp : Ulp) (s : Scores) (xm ym : Metric) (x y : List ℚ)
    (hr : s.aucRates ulp xm ym = some (x, y)) : y.length = x.length := by
  simp only [Scores.aucRates] at hr
  split at hr
  · rename_i x' y' hx hy
    simp only [Option.some.injEq, Prod.mk.injEq] at hr
    obtain ⟨rfl, rfl⟩ := hr
    rw [allSome_length _ _ hx, allSome_length _ _ hy, List.length_map, List.length_map]
  · exact absurd hr (by simp)

/-- rate arrays when both rates are given by total functions (both classes non-empty) -/
theorem aucRates_of_rates (u : Ulp) (s : Scores) (xm ym : Metric) (fx gy : ℚ → ℚ)
    (hx : ∀ t, (s.cm (.fin t)).rate xm = some (fx t))
    (hy : ∀ t, (s.cm (.fin t)).rate ym = some (gy t)) :
    s.aucRates u xm ym = some ((aucPoints u s).map fx, (aucPoints u s).map gy) := by
  have ex : ((aucPoints u s).map fun t => (s.cm (.fin t)).rate xm) =
      (aucPoints u s).map fun t => some (fx t) := List.map_congr_left (fun t _ => hx t)
  have ey : ((aucPoints u s).map fun t => (s.cm (.fin t)).rate ym) =
      (aucPoints u s).map fun t => some (gy t) := List.map_congr_left (fun t _ => hy t)
  have e0 : s.aucRates u xm ym =
      match allSome ((aucPoints u s).map fun t => (s.cm (.fin t)).rate xm),
            allSome ((aucPoints u s).map fun t => (s.cm (.fin t)).rate ym) with
      | some x, some y => some (x, y)
      | _, _ => none := rfl
  rw [e0, ex, ey, allSome_map_some, allSome_map_some]

/-- the exact model is `np.abs(np.trapezoid(ys, xs))` of the arrays `aucArrays` -/
theorem Scores.auc_eq_arrays (ulp : Ulp) (s : Scores) (lower upper : ℚ) (xm ym : Metric) :
    s.auc ulp lower upper xm ym =
      (s.aucArrays ulp lower upper xm ym).map fun w => absR (trapezoid w.1 w.2) := by
  simp only [Scores.auc, Scores.aucArrays, Scores.aucRates, aucCut]
  generalize allSome (List.map (fun t => (s.cm (ERat.fin t)).rate xm) _) = ox
  generalize allSome (List.map (fun t => (s.cm (ERat.fin t)).rate ym) _) = oy
  rcases ox with _ | x <;> rcases oy with _ | y
  · rfl
  · rfl
  · rfl
  · simp only []
    split <;> rfl

/-- the window has at most two entries more than the curve -/
theorem aucCut_length_le (x y : List ℚ) (lower upper : ℚ) :
    (aucCut x y lower upper).1.length ≤ x.length + 2 := by
  unfold aucCut
  simp only []
  have : (if decide (x.getD (x.length - 1) 0 < x.getD 0 0) = true then x.reverse else x).length =
      x.length := by split <;> simp
  simp only [List.length_append, List.length_take, List.length_drop, List.length_cons,
    List.length_nil, this]
  omega

theorem aucCut_lengths (x y : List ℚ) (lower upper : ℚ) (hl : y.length = x.length) :
    (aucCut x y lower upper).2.length = (aucCut x y lower upper).1.length := by
  unfold aucCut
  simp only []
  have : (if decide (x.getD (x.length - 1) 0 < x.getD 0 0) = true then y.reverse else y).length =
      (if decide (x.getD (x.length - 1) 0 < x.getD 0 0) = true then x.reverse else x).length := by
    split <;> simp [hl]
  simp only [List.length_append, List.length_take, List.length_drop, List.length_cons,
    List.length_nil, this]

/-- **`Scores.auc` in floating point against the exact model.** For every rounding function of
the model, every summation order `order` and every `Scores` object whose rate comparisons are
between separated values (`aucCmpOK`, evaluated by the driver): the float evaluation returns a
number within `aucEps u xs ys` of the exact model's AUC, where `xs`, `ys` are the exact model's
window arrays. -/
theorem Scores.auc_fl_error {fl : ℚ → ℚ} {u : ℚ} (h : Fl fl u) (order : ℕ → SumTree)
    (horder : ∀ n, 0 < n → (order n).leaves.Perm (List.range n))
    (ulp : Ulp) (s : Scores) (lower upper : ℚ) (xm ym : Metric) (x y : List ℚ)
    (hr : s.aucRates ulp xm ym = some (x, y)) (hne : x.length ≠ 0)
    (hg : aucCmpOK u x lower upper = true)
    (hk : (x.length : ℚ) * u < 1) :
    ∃ A At, s.auc ulp lower upper xm ym = some A ∧
      s.aucFl fl order ulp lower upper xm ym = some At ∧
      s.aucArrays ulp lower upper xm ym = some (aucCut x y lower upper) ∧
      |At - A| ≤ aucEps u (aucCut x y lower upper).1 (aucCut x y lower upper).2 := by
  have hl := aucRates_length ulp s xm ym x y hr
  have hw := aucCut_map h x y lower upper hg
  have hlen := aucCut_lengths x y lower upper hl
  set w := aucCut x y lower upper
  have hA : s.aucArrays ulp lower upper xm ym = some w := by
    unfold Scores.aucArrays
    rw [hr]
    simp only [hne, if_false]
    rfl
  have hnt : (trapTE u w.1 w.2).length = w.1.length - 1 := by
    rw [trapTE_length, hlen, min_self]
  have hpos : 0 < w.1.length - 1 := by
    have : 2 ≤ w.1.length := by
      simp only [w, aucCut, List.length_append, List.length_cons, List.length_nil]
      omega
    omega
  refine ⟨absR (trapezoid w.1 w.2), absR (trapezoidFl fl (order (w.1.length - 1)) (w.1.map fl)
    (w.2.map fl)), ?_, ?_, hA, ?_⟩
  · rw [Scores.auc_eq_arrays, hA]; rfl
  · unfold Scores.aucFl
    rw [hr]
    simp only [hne, if_false, hw, List.length_map]
  · refine SA.auc_fl_error h _ w.1 w.2 _ _ (relClose_map h _) (relClose_map h _) ?_ ?_
    · rw [hnt]; exact horder _ hpos
    · rw [hnt]
      have hle : w.1.length ≤ x.length + 2 := aucCut_length_le x y lower upper
      have hc : (((w.1.length - 1 - 1 : ℕ) : ℚ)) ≤ (x.length : ℚ) := by
        exact_mod_cast (by omega : w.1.length - 1 - 1 ≤ x.length)
      exact lt_of_le_of_lt (mul_le_mul_of_nonneg_right hc h.u_nonneg) hk

/-- with `fl = id` the float version is the exact model -/
theorem Scores.aucFl_id (order : ℕ → SumTree)
    (horder : ∀ n, 0 < n → (order n).leaves.Perm (List.range n))
    (ulp : Ulp) (s : Scores) (lower upper : ℚ) (xm ym : Metric) (x y : List ℚ)
    (hr : s.aucRates ulp xm ym = some (x, y)) (hne : x.length ≠ 0) :
    s.aucFl id order ulp lower upper xm ym = s.auc ulp lower upper xm ym := by
  have hg : aucCmpOK 0 x lower upper = true := by
    unfold aucCmpOK flSep
    simp only [zero_mul, Bool.and_eq_true, Bool.or_eq_true, decide_eq_true_eq, List.all_eq_true,
      fabs_eq_abs, abs_pos, ne_eq, sub_eq_zero]
    exact ⟨by tauto, fun v _ => ⟨by tauto, by tauto⟩⟩
  obtain ⟨A, At, h1, h2, _, h4⟩ := Scores.auc_fl_error Fl_id order horder ulp s lower upper xm ym x y
    hr hne hg (by simp)
  have h0 : aucEps 0 (aucCut x y lower upper).1 (aucCut x y lower upper).2 = 0 := by
    unfold aucEps gamK
    simp
  rw [h0] at h4
  have : At = A := by
    have := abs_nonpos_iff.mp h4
    linarith
  rw [h1, h2, this]

/-! ## E. the hypotheses are jointly satisfiable (non-identity rounding, concrete data) -/

/-- double precision unit roundoff, every result rounded away from zero by the full amount -/
def aucExFl (x : ℚ) : ℚ := x * (1 + 1 / 2 ^ 53)

theorem aucExFl_model : Fl aucExFl (1 / 2 ^ 53) :=
  Fl_scale_up (1 / 2 ^ 53) (by norm_num) (by norm_num)

/-- `trapTerm_fl_error` / `trapezoid_fl_error` / `auc_fl_error`: a model that is not the identity,
rates with denominators 3 (not representable), the left-to-right order on three terms, and the
float result differs from the exact one -/
example : Fl aucExFl (1 / 2 ^ 53) ∧
    RelClose (1 / 2 ^ 53) ([0, 1 / 3, 2 / 3, 1].map aucExFl) [0, 1 / 3, 2 / 3, 1] ∧
    RelClose (1 / 2 ^ 53) ([1 / 3, 1 / 3, 1, 1].map aucExFl) [1 / 3, 1 / 3, 1, 1] ∧
    (seqTree 2).leaves.Perm
      (List.range (trapTE (1 / 2 ^ 53) [0, 1 / 3, 2 / 3, 1] [1 / 3, 1 / 3, 1, 1]).length) ∧
    (((trapTE (1 / 2 ^ 53) [0, 1 / 3, 2 / 3, 1] [1 / 3, 1 / 3, 1, 1]).length - 1 : ℕ) : ℚ) *
      (1 / 2 ^ 53) < 1 ∧
    trapezoidFl aucExFl (seqTree 2) ([0, 1 / 3, 2 / 3, 1].map aucExFl)
      ([1 / 3, 1 / 3, 1, 1].map aucExFl) ≠ trapezoid [0, 1 / 3, 2 / 3, 1] [1 / 3, 1 / 3, 1, 1] := by
  refine ⟨aucExFl_model, relClose_map aucExFl_model _, relClose_map aucExFl_model _, ?_, ?_, ?_⟩
  · exact seqTree_perm 2
  · decide +kernel
  · decide +kernel

/-- the rate arrays of a concrete object: three positives, three negatives, one easy negative,
`±1/2` steps; TPR `count / 3` is not representable -/
theorem aucEx_rates :
    (⟨[1, 3, 5], [0, 2, 4], 0, 1, ⟨.pos, .pos⟩⟩ : Scores).aucRates Ulp.half .fpr .tpr =
      some ([3 / 4, 1 / 2, 1 / 2, 1 / 2, 1 / 2, 1 / 4, 1 / 4, 1 / 4, 1 / 4, 0, 0, 0],
        [1, 1, 1, 2 / 3, 2 / 3, 2 / 3, 2 / 3, 1 / 3, 1 / 3, 1 / 3, 1 / 3, 0]) := by
  set s : Scores := ⟨[1, 3, 5], [0, 2, 4], 0, 1, ⟨.pos, .pos⟩⟩ with hs
  have hp : s.pos.Pairwise (· ≤ ·) := by decide +kernel
  have hn : s.neg.Pairwise (· ≤ ·) := by decide +kernel
  have hx : ∀ t, (s.cm (.fin t)).rate .fpr = some (fpQ s t) := fun t => by
    rw [rate_fpr s hp hn]; rfl
  have hy : ∀ t, (s.cm (.fin t)).rate .tpr = some (tpQ s t) := fun t => by
    rw [rate_tpr s hp hn]; rfl
  have hpts : aucPoints Ulp.half s =
      [-1 / 2, 1 / 2, 1 / 2, 3 / 2, 3 / 2, 5 / 2, 5 / 2, 7 / 2, 7 / 2, 9 / 2, 9 / 2, 11 / 2] := by
    have hperm : ([-1 / 2, 1 / 2, 1 / 2, 3 / 2, 3 / 2, 5 / 2, 5 / 2, 7 / 2, 7 / 2, 9 / 2, 9 / 2,
        11 / 2] : List ℚ).Perm ((s.pos ++ s.neg).map Ulp.half.down ++ (s.pos ++ s.neg).map Ulp.half.up) := by
      decide +kernel
    unfold aucPoints
    rw [← sortQ_eq_of_perm _ _ hperm]
    unfold sortQ
    exact List.mergeSort_of_pairwise (by decide +kernel)
  rw [aucRates_of_rates Ulp.half s .fpr .tpr _ _ hx hy, hpts]
  decide +kernel

/-- `Scores.auc_fl_error`: that object, a partial window `[1/4, 3/4]` whose limits are rates of
the curve (equal values count as separated) and a window `[1/3, 0.7]` off the grid: the guard holds,
`len(x) u < 1`, and the left-to-right order is a summation order for every number of terms -/
example :
    (⟨[1, 3, 5], [0, 2, 4], 0, 1, ⟨.pos, .pos⟩⟩ : Scores).aucRates Ulp.half .fpr .tpr =
      some ([3 / 4, 1 / 2, 1 / 2, 1 / 2, 1 / 2, 1 / 4, 1 / 4, 1 / 4, 1 / 4, 0, 0, 0],
        [1, 1, 1, 2 / 3, 2 / 3, 2 / 3, 2 / 3, 1 / 3, 1 / 3, 1 / 3, 1 / 3, 0]) ∧
    ([3 / 4, 1 / 2, 1 / 2, 1 / 2, 1 / 2, 1 / 4, 1 / 4, 1 / 4, 1 / 4, 0, 0, 0] : List ℚ).length ≠ 0 ∧
    aucCmpOK (1 / 2 ^ 53) [3 / 4, 1 / 2, 1 / 2, 1 / 2, 1 / 2, 1 / 4, 1 / 4, 1 / 4, 1 / 4, 0, 0, 0]
      (1 / 4) (3 / 4) = true ∧
    aucCmpOK (1 / 2 ^ 53) [3 / 4, 1 / 2, 1 / 2, 1 / 2, 1 / 2, 1 / 4, 1 / 4, 1 / 4, 1 / 4, 0, 0, 0]
      (1 / 3) (7 / 10) = true ∧
    (([3 / 4, 1 / 2, 1 / 2, 1 / 2, 1 / 2, 1 / 4, 1 / 4, 1 / 4, 1 / 4, 0, 0, 0] : List ℚ).length : ℚ) *
      (1 / 2 ^ 53) < 1 ∧
    ∀ n, 0 < n → ((fun n => seqTree (n - 1)) n).leaves.Perm (List.range n) := by
  refine ⟨aucEx_rates, by decide +kernel, by decide +kernel, by decide +kernel, by decide +kernel, ?_⟩
  intro n hn
  have := seqTree_perm (n - 1)
  rwa [Nat.sub_add_cancel hn] at this

/-- the guard fails where it should: a limit closer to a rate than the two roundings together
(`1/2 + 2^-54` against the rate `1/2`) -/
example : aucCmpOK (1 / 2 ^ 53) [3 / 4, 1 / 2, 1 / 4, 0] (1 / 2 + 1 / 2 ^ 54) (3 / 4) = false := by
  decide +kernel

/-- a worked instance of the bound: the four-point curve above, `u = 2^-53`: about `7.1 u` for an
area of `2/3` (the differences `1/3` of rounded abscissae of size up to 1 amplify the input roundings) -/
example : aucEps (1 / 2 ^ 53) [0, 1 / 3, 2 / 3, 1] [1 / 3, 1 / 3, 1, 1] < 8 * (1 / 2 ^ 53) := by
  decide +kernel

end SA
