/-
Floating-point error bounds for the two interpolation formulas (C02 / C09 / C15 / C17), under the
standard model `Fl fl u` (`SA/Proofs/FloatModel.lean`): every arithmetic operation returns
`fl` of the exact result, `|fl x - x| ≤ u * |x|`.

Statements (all for every `fl`, `u` with `Fl fl u`):

* `interp_fl_error`         `|fl(fl(la*a) + fl(fl(1-la)*b)) - (la*a + (1-la)*b)| ≤ ((1+u)^3 - 1) * max |a| |b|`
                             for `0 ≤ la ≤ 1`  (`interp_fl_error_gen`: any `la`, sharper, weights kept)
* `interp_fl_error_perturbed`  the same with a weight `la'`, `|la' - la| ≤ d`: additional `d * |a - b|`
* `interp_fl_bracket`       `min a b - eps ≤ t~ ≤ max a b + eps`  (the "few ulp" clause of C02)
* `target_fl_error`, `weight_fl_error`  the index target `fl(r' * N)` and the weight `fl(R - target)`
* `threshold_fl_error`      float `_invert_increasing_function` against the exact model
                             `invertIncreasing`, WHEN both are interior and pick the same two neighbours
* `threshold_fl_error_checked`  the same with the two hypotheses replaced by the executable guards
                             `flInterior`, `flSameCell` (evaluated by the driver)
* `threshold_fl_error_lip`  without the same-neighbours hypothesis, for a sorted list
* `threshold_fl_bracket`    the float threshold lies between the two neighbours up to the bound
* `FExpr.evalFl_error`      running error bound for arithmetic expressions; `ratioE_val`,
                             `thresholdAt_fl_error`: the whole way from the requested target of
                             `threshold_at_<metric>` to the returned threshold
* `segPoint_fl_error`       the segment formula of `invert_pl_function`
* `*_id`                    with `fl = id` the float versions are the exact models
-/
import SA.Proofs.FloatModel
import SA.Proofs.ThrLipschitz
import SA.Theorems.C17

namespace SA

/-! ## A. the convex combination -/

/-- **General weights.** No assumption on `la`; each product keeps its own weight. -/
theorem interp_fl_error_gen {fl : ℚ → ℚ} {u : ℚ} (h : Fl fl u) (la a b : ℚ) :
    |interpEval fl la a b - (la * a + (1 - la) * b)| ≤
      ((1 + u) ^ 2 - 1) * (|la| * |a|) + ((1 + u) ^ 3 - 1) * (|1 - la| * |b|) := by
  have hu := h.u_nonneg
  have hp : |fl (la * a) - la * a| ≤ u * (|la| * |a|) := h.mul_err la a
  have hw : |fl (1 - la) - (1 - la)| ≤ u * |1 - la| := h.rel _
  have hb : |b - b| ≤ 0 := by simp
  have hq := h.mul_round hw hb
  simp only [zero_mul, mul_zero, add_zero] at hq
  have hs := h.add_round hp hq
  have hT : |la * a + (1 - la) * b| ≤ |la| * |a| + |1 - la| * |b| := by
    have := abs_add_le (la * a) ((1 - la) * b)
    rw [abs_mul, abs_mul] at this
    exact this
  rw [abs_mul] at hs hq
  unfold interpEval
  set A := |la| * |a|
  set X := |1 - la| * |b|
  set T := |la * a + (1 - la) * b|
  have hX : u * |1 - la| * |b| = u * X := by ring
  rw [hX] at hs
  have key : ((1 + u) ^ 2 - 1) * A + ((1 + u) ^ 3 - 1) * X -
      (u * A + (u * X + u * (X + u * X)) + u * (T + (u * A + (u * X + u * (X + u * X))))) =
      u * (A + X - T) := by ring
  have : 0 ≤ u * (A + X - T) := mul_nonneg hu (by linarith)
  linarith

/-- the executable `interpErrW` is the right-hand side of `interp_fl_error_gen` -/
theorem interpErrW_eq (u la a b : ℚ) : interpErrW u la a b =
    ((1 + u) ^ 2 - 1) * (|la| * |a|) + ((1 + u) ^ 3 - 1) * (|1 - la| * |b|) := by
  unfold interpErrW
  rw [gam2_eq, gam3_eq, fabs_eq_abs, fabs_eq_abs, fabs_eq_abs, fabs_eq_abs]

theorem interpErr_eq (u a b : ℚ) : interpErr u a b = ((1 + u) ^ 3 - 1) * max |a| |b| := by
  unfold interpErr
  rw [gam3_eq, fabs_eq_abs, fabs_eq_abs]

theorem interpEpsW_eq (u d a b : ℚ) : interpEpsW u d a b =
    d * |a - b| + ((1 + u) ^ 3 - 1) * ((1 + 2 * d) * max |a| |b|) := by
  unfold interpEpsW
  rw [gam3_eq, fabs_eq_abs, fabs_eq_abs, fabs_eq_abs]

private theorem gam_le {u : ℚ} (hu : 0 ≤ u) : (1 + u) ^ 2 - 1 ≤ (1 + u) ^ 3 - 1 := by
  have : (1 + u) ^ 3 - 1 - ((1 + u) ^ 2 - 1) = u * (1 + u) ^ 2 := by ring
  have : 0 ≤ u * (1 + u) ^ 2 := by positivity
  linarith

private theorem gam3_nn {u : ℚ} (hu : 0 ≤ u) : 0 ≤ (1 + u) ^ 3 - 1 := by
  have := gam3_nonneg hu
  rwa [gam3_eq] at this

/-- weights bounded by `wa`, `wb`: `≤ ((1+u)^3 - 1) * (wa + wb) * max |a| |b|` -/
private theorem interpErrW_le {u la a b wa wb : ℚ} (hu : 0 ≤ u) (ha : |la| ≤ wa)
    (hb : |1 - la| ≤ wb) :
    ((1 + u) ^ 2 - 1) * (|la| * |a|) + ((1 + u) ^ 3 - 1) * (|1 - la| * |b|) ≤
      ((1 + u) ^ 3 - 1) * ((wa + wb) * max |a| |b|) := by
  have g3 := gam3_nn hu
  have g23 := gam_le hu
  have hM1 : |a| ≤ max |a| |b| := le_max_left _ _
  have hM2 : |b| ≤ max |a| |b| := le_max_right _ _
  have hM0 : 0 ≤ max |a| |b| := le_trans (abs_nonneg a) hM1
  have h1 : |la| * |a| ≤ wa * max |a| |b| :=
    mul_le_mul ha hM1 (abs_nonneg _) (le_trans (abs_nonneg _) ha)
  have h2 : |1 - la| * |b| ≤ wb * max |a| |b| :=
    mul_le_mul hb hM2 (abs_nonneg _) (le_trans (abs_nonneg _) hb)
  have h0 : 0 ≤ |la| * |a| := mul_nonneg (abs_nonneg _) (abs_nonneg _)
  calc ((1 + u) ^ 2 - 1) * (|la| * |a|) + ((1 + u) ^ 3 - 1) * (|1 - la| * |b|)
      ≤ ((1 + u) ^ 3 - 1) * (|la| * |a|) + ((1 + u) ^ 3 - 1) * (|1 - la| * |b|) := by
        have := mul_le_mul_of_nonneg_right g23 h0
        linarith
    _ ≤ ((1 + u) ^ 3 - 1) * (wa * max |a| |b|) + ((1 + u) ^ 3 - 1) * (wb * max |a| |b|) := by
        have := mul_le_mul_of_nonneg_left h1 g3
        have := mul_le_mul_of_nonneg_left h2 g3
        linarith
    _ = ((1 + u) ^ 3 - 1) * ((wa + wb) * max |a| |b|) := by ring

/-- **`interp_fl_error`.** For a weight in `[0, 1]` the float evaluation of
`la * a + (1 - la) * b` is within `((1+u)^3 - 1) * max |a| |b|` (about `3u` times the larger
neighbour, i.e. one and a half of its ulps for `u = 2^-53`) of the exact value. -/
theorem interp_fl_error {fl : ℚ → ℚ} {u : ℚ} (h : Fl fl u) (la a b : ℚ) (h0 : 0 ≤ la)
    (h1 : la ≤ 1) :
    |interpEval fl la a b - (la * a + (1 - la) * b)| ≤ ((1 + u) ^ 3 - 1) * max |a| |b| := by
  have e := interp_fl_error_gen h la a b
  have ha : |la| ≤ la := by rw [abs_of_nonneg h0]
  have hb : |1 - la| ≤ 1 - la := by rw [abs_of_nonneg (by linarith)]
  have := interpErrW_le (a := a) (b := b) h.u_nonneg ha hb
  have e1 : la + (1 - la) = 1 := by ring
  rw [e1, one_mul] at this
  linarith

/-- the bound of `interp_fl_error` is the executable `interpErr` -/
theorem interp_fl_error' {fl : ℚ → ℚ} {u : ℚ} (h : Fl fl u) (la a b : ℚ) (h0 : 0 ≤ la)
    (h1 : la ≤ 1) :
    |interpEval fl la a b - (la * a + (1 - la) * b)| ≤ interpErr u a b := by
  rw [interpErr_eq]; exact interp_fl_error h la a b h0 h1

/-- **Perturbed weight.** The weight actually used, `la'`, is within `d` of the exact weight
`la ∈ [0, 1]` (it comes from `right_idx - fl (r * N)`): the distance to the exact
interpolation grows by `d * |a - b|`. -/
theorem interp_fl_error_perturbed {fl : ℚ → ℚ} {u : ℚ} (h : Fl fl u) (la la' d a b : ℚ)
    (h0 : 0 ≤ la) (h1 : la ≤ 1) (hd : |la' - la| ≤ d) :
    |interpEval fl la' a b - (la * a + (1 - la) * b)| ≤
      d * |a - b| + ((1 + u) ^ 3 - 1) * ((1 + 2 * d) * max |a| |b|) := by
  have e := interp_fl_error_gen h la' a b
  have hd' := abs_le.mp hd
  have ha : |la'| ≤ la + d := by rw [abs_le]; constructor <;> linarith
  have hb : |1 - la'| ≤ (1 - la) + d := by rw [abs_le]; constructor <;> linarith
  have e2 := interpErrW_le (a := a) (b := b) h.u_nonneg ha hb
  have e3 : la + d + (1 - la + d) = 1 + 2 * d := by ring
  rw [e3] at e2
  have e4 : |(la' * a + (1 - la') * b) - (la * a + (1 - la) * b)| ≤ d * |a - b| := by
    have : (la' * a + (1 - la') * b) - (la * a + (1 - la) * b) = (la' - la) * (a - b) := by ring
    rw [this, abs_mul]
    exact mul_le_mul_of_nonneg_right hd (abs_nonneg _)
  have tri := abs_add_le (interpEval fl la' a b - (la' * a + (1 - la') * b))
    ((la' * a + (1 - la') * b) - (la * a + (1 - la) * b))
  have e5 : interpEval fl la' a b - (la' * a + (1 - la') * b) +
      ((la' * a + (1 - la') * b) - (la * a + (1 - la) * b)) =
      interpEval fl la' a b - (la * a + (1 - la) * b) := by ring
  rw [e5] at tri
  linarith

/-- executable form -/
theorem interp_fl_error_perturbed' {fl : ℚ → ℚ} {u : ℚ} (h : Fl fl u) (la la' d a b : ℚ)
    (h0 : 0 ≤ la) (h1 : la ≤ 1) (hd : |la' - la| ≤ d) :
    |interpEval fl la' a b - (la * a + (1 - la) * b)| ≤ interpEpsW u d a b := by
  rw [interpEpsW_eq]; exact interp_fl_error_perturbed h la la' d a b h0 h1 hd

/-- a convex combination lies between its end points -/
theorem convex_between (la a b : ℚ) (h0 : 0 ≤ la) (h1 : la ≤ 1) :
    min a b ≤ la * a + (1 - la) * b ∧ la * a + (1 - la) * b ≤ max a b := by
  have m1 := min_le_left a b
  have m2 := min_le_right a b
  have M1 := le_max_left a b
  have M2 := le_max_right a b
  have w : 0 ≤ 1 - la := by linarith
  constructor
  · have := mul_le_mul_of_nonneg_left m1 h0
    have := mul_le_mul_of_nonneg_left m2 w
    nlinarith
  · have := mul_le_mul_of_nonneg_left M1 h0
    have := mul_le_mul_of_nonneg_left M2 w
    nlinarith

/-- **Bracket ("few ulp").** The float interpolation lies between the two neighbours up to the
error bound, for the exact weight and for a perturbed one. -/
theorem interp_fl_bracket {fl : ℚ → ℚ} {u : ℚ} (h : Fl fl u) (la la' d a b : ℚ)
    (h0 : 0 ≤ la) (h1 : la ≤ 1) (hd : |la' - la| ≤ d) :
    min a b - interpEpsW u d a b ≤ interpEval fl la' a b ∧
      interpEval fl la' a b ≤ max a b + interpEpsW u d a b := by
  have e := abs_le.mp (interp_fl_error_perturbed' h la la' d a b h0 h1 hd)
  have c := convex_between la a b h0 h1
  constructor <;> linarith [e.1, e.2, c.1, c.2]

/-- the bracket with the exact weight: `min a b - ((1+u)^3-1) max|a||b| ≤ t~ ≤ max a b + ...` -/
theorem interp_fl_bracket_exact {fl : ℚ → ℚ} {u : ℚ} (h : Fl fl u) (la a b : ℚ)
    (h0 : 0 ≤ la) (h1 : la ≤ 1) :
    min a b - ((1 + u) ^ 3 - 1) * max |a| |b| ≤ interpEval fl la a b ∧
      interpEval fl la a b ≤ max a b + ((1 + u) ^ 3 - 1) * max |a| |b| := by
  have e := abs_le.mp (interp_fl_error h la a b h0 h1)
  have c := convex_between la a b h0 h1
  constructor <;> linarith [e.1, e.2, c.1, c.2]

/-- monotone in the weight error -/
theorem interpEpsW_mono {u d d' a b : ℚ} (hu : 0 ≤ u) (hd : d ≤ d') :
    interpEpsW u d a b ≤ interpEpsW u d' a b := by
  rw [interpEpsW_eq, interpEpsW_eq]
  have g3 := gam3_nn hu
  have hM0 : 0 ≤ max |a| |b| := le_trans (abs_nonneg a) (le_max_left _ _)
  have h1 : d * |a - b| ≤ d' * |a - b| := mul_le_mul_of_nonneg_right hd (abs_nonneg _)
  have h2 : (1 + 2 * d) * max |a| |b| ≤ (1 + 2 * d') * max |a| |b| :=
    mul_le_mul_of_nonneg_right (by linarith) hM0
  have := mul_le_mul_of_nonneg_left h2 g3
  linarith

/-! ## B. index target, weight, threshold -/

/-- `fl (rt - fl (1/n))` against `r - 1/n` -/
theorem shift_fl_error {fl : ℚ → ℚ} {u : ℚ} (h : Fl fl u) (n : ℕ) (lc : Bool) (r rt dr : ℚ)
    (hdr : |rt - r| ≤ dr) :
    |(if lc then rt else fl (rt - fl (1 / (n : ℚ)))) - (if lc then r else r - 1 / (n : ℚ))| ≤
      shiftErr u n lc r dr := by
  unfold shiftErr
  cases lc
  · simp only [Bool.false_eq_true, if_false]
    have hn : (0 : ℚ) ≤ 1 / (n : ℚ) := by positivity
    have hm : |fl (1 / (n : ℚ)) - 1 / (n : ℚ)| ≤ u * (1 / (n : ℚ)) := by
      have := h.rel (1 / (n : ℚ))
      rwa [abs_of_nonneg hn] at this
    have := h.sub_round hdr hm
    rw [fabs_eq_abs]
    exact this
  · simp only [if_true]
    exact hdr

theorem shiftErr_nonneg {fl : ℚ → ℚ} {u : ℚ} (h : Fl fl u) (n : ℕ) (lc : Bool) (r rt dr : ℚ)
    (hdr : |rt - r| ≤ dr) : 0 ≤ shiftErr u n lc r dr :=
  le_trans (abs_nonneg _) (shift_fl_error h n lc r rt dr hdr)

/-- **Index target.** `target~ = fl (r'~ * N)` against `target = r' * N`. -/
theorem target_fl_error {fl : ℚ → ℚ} {u : ℚ} (h : Fl fl u) (s : List ℚ) (lc : Bool)
    (r rt dr : ℚ) (hdr : |rt - r| ≤ dr) :
    |indexTargetFl fl s rt lc - indexTarget s r lc| ≤ targetErr u s.length lc r dr := by
  unfold indexTargetFl indexTarget targetErr
  have hs := shift_fl_error h s.length lc r rt dr hdr
  have hn : |(s.length : ℚ) - (s.length : ℚ)| ≤ 0 := by simp
  have := h.mul_round hs hn
  simp only [zero_mul, mul_zero, add_zero] at this
  have hN : |(s.length : ℚ)| = (s.length : ℚ) := abs_of_nonneg (by positivity)
  rw [hN] at this
  simp only [fabs_eq_abs]
  exact this

theorem targetErr_nonneg {fl : ℚ → ℚ} {u : ℚ} (h : Fl fl u) (s : List ℚ) (lc : Bool)
    (r rt dr : ℚ) (hdr : |rt - r| ≤ dr) : 0 ≤ targetErr u s.length lc r dr :=
  le_trans (abs_nonneg _) (target_fl_error h s lc r rt dr hdr)

/-- the special case named in the brief: exact ratio, no shift, `d ≤ u * r * N` -/
theorem targetErr_exact (u : ℚ) (n : ℕ) (r : ℚ) : targetErr u n true r 0 = u * |r * (n : ℚ)| := by
  unfold targetErr shiftErr
  simp only [if_true, zero_mul, zero_add, add_zero, fabs_eq_abs]

/-- **Weight.** `la' = fl (R - target~)` against `la = R - target ∈ [0, 1]`. -/
theorem weight_fl_error {fl : ℚ → ℚ} {u : ℚ} (h : Fl fl u) (R x xt dt : ℚ) (h0 : 0 ≤ R - x)
    (h1 : R - x ≤ 1) (hx : |xt - x| ≤ dt) : |fl (R - xt) - (R - x)| ≤ weightErr u dt := by
  have hR : |R - R| ≤ 0 := by simp
  have := h.sub_round hR hx
  rw [abs_of_nonneg h0, zero_add] at this
  unfold weightErr
  have : u * (R - x + dt) ≤ u * (1 + dt) := mul_le_mul_of_nonneg_left (by linarith) h.u_nonneg
  linarith

/-- the model's weight is in `[0, 1]` -/
theorem ceil_weight (x : ℚ) : 0 ≤ ((ceilQ x : ℤ) : ℚ) - x ∧ ((ceilQ x : ℤ) : ℚ) - x ≤ 1 := by
  rw [ceilQ_eq]
  have h1 := Int.le_ceil x
  have h2 := Int.ceil_lt_add_one x
  constructor <;> linarith

theorem interp_eq_eval (s : List ℚ) (x : ℚ) :
    interp s x = (((ceilQ x : ℤ) : ℚ) - x) * s.getD (clampIdx x.floor s.length) 0 +
      (1 - (((ceilQ x : ℤ) : ℚ) - x)) * s.getD (clampIdx (ceilQ x) s.length) 0 := rfl

theorem interpFl_eq_eval (fl : ℚ → ℚ) (s : List ℚ) (x : ℚ) :
    interpFl fl s x = interpEval fl (fl (((ceilQ x : ℤ) : ℚ) - x))
      (s.getD (clampIdx x.floor s.length) 0) (s.getD (clampIdx (ceilQ x) s.length) 0) := rfl

/-- value of the float computation for an interior target -/
theorem invertIncreasingFl_interior (fl : ℚ → ℚ) (ulp : Ulp) (s : List ℚ) (r : ℚ) (lc : Bool)
    (h1 : r < 1) (h0 : 0 < (if lc then r else fl (r - fl (1 / (s.length : ℚ))))) :
    invertIncreasingFl fl ulp s r lc .linear = interpFl fl s (indexTargetFl fl s r lc) := by
  unfold invertIncreasingFl indexTargetFl interpFl
  have h1' : ¬ (1 ≤ r) := by linarith
  have h0' : ¬ ((if lc = true then r else fl (r - fl (1 / (s.length : ℚ)))) ≤ 0) := by linarith
  simp only [h1', decide_false, Bool.false_eq_true, if_false, h0']

/-- **Float interpolation at one index target** (only the weight `right_idx - target` and the
convex combination are rounded): the weight error is at most `u`. -/
theorem interpFl_error {fl : ℚ → ℚ} {u : ℚ} (h : Fl fl u) (s : List ℚ) (x : ℚ) :
    |interpFl fl s x - interp s x| ≤ interpEpsW u u (s.getD (clampIdx x.floor s.length) 0)
      (s.getD (clampIdx (ceilQ x) s.length) 0) := by
  rw [interpFl_eq_eval, interp_eq_eval]
  obtain ⟨w0, w1⟩ := ceil_weight x
  have hw : |fl (((ceilQ x : ℤ) : ℚ) - x) - (((ceilQ x : ℤ) : ℚ) - x)| ≤ u := by
    have := h.rel (((ceilQ x : ℤ) : ℚ) - x)
    rw [abs_of_nonneg w0] at this
    have : u * (((ceilQ x : ℤ) : ℚ) - x) ≤ u * 1 := mul_le_mul_of_nonneg_left w1 h.u_nonneg
    linarith
  exact interp_fl_error_perturbed' h _ _ u _ _ w0 w1 hw

/-- **`threshold_fl_error`, arithmetic core.** Index target `x` (exact) and `xt` (float) within
`dt`, the same ceiling `R` and the same neighbours `a`, `b`. -/
theorem threshold_fl_error_core {fl : ℚ → ℚ} {u : ℚ} (h : Fl fl u) (R x xt dt a b : ℚ)
    (h0 : 0 ≤ R - x) (h1 : R - x ≤ 1) (hx : |xt - x| ≤ dt) :
    |interpEval fl (fl (R - xt)) a b - ((R - x) * a + (1 - (R - x)) * b)| ≤
      interpEpsW u (weightErr u dt) a b :=
  interp_fl_error_perturbed' h _ _ _ a b h0 h1 (weight_fl_error h R x xt dt h0 h1 hx)

/-- **`threshold_fl_error`.** `_invert_increasing_function` (method `linear`) computed in
floating point from a ratio `rt` within `dr` of the exact ratio `r`, against the exact model,
for interior targets (neither special case, on either side) WHEN BOTH PICK THE SAME TWO
NEIGHBOURS (the float index target has the floor and ceiling of the exact one):

`|t~ - t| ≤ d * |a - b| + ((1+u)^3 - 1) * (1 + 2 d) * max |a| |b|`, `d = dt + u (1 + dt)`,
`dt = targetErr` (`= u * r * N` for an exact unshifted ratio). -/
theorem threshold_fl_error {fl : ℚ → ℚ} {u : ℚ} (h : Fl fl u) (ulp : Ulp) (s : List ℚ)
    (r rt dr : ℚ) (lc : Bool) (hdr : |rt - r| ≤ dr)
    (h1 : r < 1) (h0 : 0 < (if lc then r else r - 1 / (s.length : ℚ)))
    (h1t : rt < 1) (h0t : 0 < (if lc then rt else fl (rt - fl (1 / (s.length : ℚ)))))
    (hfloor : (indexTargetFl fl s rt lc).floor = (indexTarget s r lc).floor)
    (hceil : ceilQ (indexTargetFl fl s rt lc) = ceilQ (indexTarget s r lc)) :
    |invertIncreasingFl fl ulp s rt lc .linear - invertIncreasing ulp s r lc .linear| ≤
      interpEpsR u s.length lc r dr
        (s.getD (clampIdx (indexTarget s r lc).floor s.length) 0)
        (s.getD (clampIdx (ceilQ (indexTarget s r lc)) s.length) 0) := by
  rw [invertIncreasingFl_interior fl ulp s rt lc h1t h0t, invertIncreasing_interior ulp s r lc h1 h0,
    interpFl_eq_eval, interp_eq_eval, hfloor, hceil]
  obtain ⟨w0, w1⟩ := ceil_weight (indexTarget s r lc)
  exact threshold_fl_error_core h _ _ _ _ _ _ w0 w1 (target_fl_error h s lc r rt dr hdr)

/-- the closed form of the bound -/
theorem interpEpsR_eq (u : ℚ) (n : ℕ) (lc : Bool) (r dr a b : ℚ) :
    interpEpsR u n lc r dr a b =
      (targetErr u n lc r dr + u * (1 + targetErr u n lc r dr)) * |a - b| +
        ((1 + u) ^ 3 - 1) *
          ((1 + 2 * (targetErr u n lc r dr + u * (1 + targetErr u n lc r dr))) * max |a| |b|) := by
  unfold interpEpsR weightErr
  rw [interpEpsW_eq]

/-- `interpEps u n r a b`: exact ratio, no shift; the weight error is
`u r N + u (1 + u r N)` -/
theorem interpEps_eq (u : ℚ) (n : ℕ) (r a b : ℚ) :
    interpEps u n r a b =
      (u * |r * (n : ℚ)| + u * (1 + u * |r * (n : ℚ)|)) * |a - b| +
        ((1 + u) ^ 3 - 1) *
          ((1 + 2 * (u * |r * (n : ℚ)| + u * (1 + u * |r * (n : ℚ)|))) * max |a| |b|) := by
  unfold interpEps
  rw [interpEpsR_eq, targetErr_exact]

/-- with an exactly known ratio and no shift the bound of `threshold_fl_error` is `interpEps` -/
theorem threshold_fl_error_exact {fl : ℚ → ℚ} {u : ℚ} (h : Fl fl u) (ulp : Ulp) (s : List ℚ)
    (r : ℚ) (h1 : r < 1) (h0 : 0 < r)
    (hfloor : (indexTargetFl fl s r true).floor = (indexTarget s r true).floor)
    (hceil : ceilQ (indexTargetFl fl s r true) = ceilQ (indexTarget s r true)) :
    |invertIncreasingFl fl ulp s r true .linear - invertIncreasing ulp s r true .linear| ≤
      interpEps u s.length r
        (s.getD (clampIdx (indexTarget s r true).floor s.length) 0)
        (s.getD (clampIdx (ceilQ (indexTarget s r true)) s.length) 0) := by
  unfold interpEps
  exact threshold_fl_error h ulp s r r 0 true (by simp) h1 (by simpa using h0) h1
    (by simpa using h0) hfloor hceil

/-- **Bracket for the float threshold**: between the two neighbours up to the bound. -/
theorem threshold_fl_bracket {fl : ℚ → ℚ} {u : ℚ} (h : Fl fl u) (ulp : Ulp) (s : List ℚ)
    (r rt dr : ℚ) (lc : Bool) (hdr : |rt - r| ≤ dr)
    (h1 : r < 1) (h0 : 0 < (if lc then r else r - 1 / (s.length : ℚ)))
    (h1t : rt < 1) (h0t : 0 < (if lc then rt else fl (rt - fl (1 / (s.length : ℚ)))))
    (hfloor : (indexTargetFl fl s rt lc).floor = (indexTarget s r lc).floor)
    (hceil : ceilQ (indexTargetFl fl s rt lc) = ceilQ (indexTarget s r lc)) :
    let a := s.getD (clampIdx (indexTarget s r lc).floor s.length) 0
    let b := s.getD (clampIdx (ceilQ (indexTarget s r lc)) s.length) 0
    min a b - interpEpsR u s.length lc r dr a b ≤ invertIncreasingFl fl ulp s rt lc .linear ∧
      invertIncreasingFl fl ulp s rt lc .linear ≤ max a b + interpEpsR u s.length lc r dr a b := by
  intro a b
  have e := abs_le.mp (threshold_fl_error h ulp s r rt dr lc hdr h1 h0 h1t h0t hfloor hceil)
  rw [invertIncreasing_interior ulp s r lc h1 h0, interp_eq_eval] at e
  obtain ⟨w0, w1⟩ := ceil_weight (indexTarget s r lc)
  have c := convex_between _ a b w0 w1
  constructor <;> linarith [e.1, e.2, c.1, c.2]

/-! ## B'. the two hypotheses as executable guards; the bound without the same-neighbours hypothesis -/

/-- the margin of `flInterior` keeps both computations away from the two special cases -/
theorem interior_of_guard {fl : ℚ → ℚ} {u : ℚ} (h : Fl fl u) (n : ℕ) (lc : Bool) (r rt dr : ℚ)
    (hdr : |rt - r| ≤ dr) (hg : flInterior u n lc r dr = true) :
    r < 1 ∧ 0 < (if lc then r else r - 1 / (n : ℚ)) ∧ rt < 1 ∧
      0 < (if lc then rt else fl (rt - fl (1 / (n : ℚ)))) := by
  unfold flInterior at hg
  simp only [Bool.and_eq_true, decide_eq_true_eq] at hg
  obtain ⟨g1, g2⟩ := hg
  have hdr' := abs_le.mp hdr
  have hdr0 : 0 ≤ dr := le_trans (abs_nonneg _) hdr
  have hs := shift_fl_error h n lc r rt dr hdr
  have hs0 := le_trans (abs_nonneg _) hs
  have hs' := abs_le.mp hs
  refine ⟨by linarith, ?_, by linarith, ?_⟩
  · exact lt_of_le_of_lt hs0 g2
  · linarith [hs'.1]

/-- closer to `x` than `x` is to any integer: same floor and ceiling -/
theorem same_cell_of_close (x xt dt : ℚ) (hx : |xt - x| ≤ dt) (hd : dt < fracDist x) :
    xt.floor = x.floor ∧ ceilQ xt = ceilQ x := by
  have hfx : x.floor = ⌊x⌋ := rfl
  have hfxt : xt.floor = ⌊xt⌋ := rfl
  unfold fracDist at hd
  rw [hfx] at hd
  have d1 : dt < x - (⌊x⌋ : ℚ) := lt_of_lt_of_le hd (min_le_left _ _)
  have d2 : dt < (⌊x⌋ : ℚ) + 1 - x := lt_of_lt_of_le hd (min_le_right _ _)
  have hx' := abs_le.mp hx
  have hdt0 : 0 ≤ dt := le_trans (abs_nonneg _) hx
  have l1 : (⌊x⌋ : ℚ) < xt := by linarith [hx'.1]
  have l2 : xt < (⌊x⌋ : ℚ) + 1 := by linarith [hx'.2]
  have l3 : (⌊x⌋ : ℚ) < x := by linarith
  have l4 : x < (⌊x⌋ : ℚ) + 1 := by linarith
  constructor
  · rw [hfx, hfxt, Int.floor_eq_iff]
    exact ⟨le_of_lt l1, l2⟩
  · rw [ceilQ_eq, ceilQ_eq]
    have c1 : ⌈xt⌉ = ⌊x⌋ + 1 := by
      rw [Int.ceil_eq_iff]; push_cast; constructor <;> linarith
    have c2 : ⌈x⌉ = ⌊x⌋ + 1 := by
      rw [Int.ceil_eq_iff]; push_cast; constructor <;> linarith
    rw [c1, c2]

/-- **`threshold_fl_error` with checked hypotheses.** `flInterior` and `flSameCell` are evaluated
by the driver on the exact quantities; they imply the four interior hypotheses and the
same-neighbours hypothesis of `threshold_fl_error` for EVERY rounding function of the model. -/
theorem threshold_fl_error_checked {fl : ℚ → ℚ} {u : ℚ} (h : Fl fl u) (ulp : Ulp) (s : List ℚ)
    (r rt dr : ℚ) (lc : Bool) (hdr : |rt - r| ≤ dr)
    (hint : flInterior u s.length lc r dr = true) (hcell : flSameCell u s lc r dr = true) :
    |invertIncreasingFl fl ulp s rt lc .linear - invertIncreasing ulp s r lc .linear| ≤
      interpEpsR u s.length lc r dr
        (s.getD (clampIdx (indexTarget s r lc).floor s.length) 0)
        (s.getD (clampIdx (ceilQ (indexTarget s r lc)) s.length) 0) := by
  obtain ⟨h1, h0, h1t, h0t⟩ := interior_of_guard h s.length lc r rt dr hdr hint
  unfold flSameCell at hcell
  simp only [decide_eq_true_eq] at hcell
  obtain ⟨hf, hc⟩ := same_cell_of_close _ _ _ (target_fl_error h s lc r rt dr hdr) hcell
  exact threshold_fl_error h ulp s r rt dr lc hdr h1 h0 h1t h0t hf hc

theorem maxGapAux_eq : ∀ (l : List ℚ) (m : ℚ), 0 ≤ m → maxGapAux m l = max m (c06d_maxGap l)
  | [], m, hm => by simp only [maxGapAux, c06d_maxGap]; exact (max_eq_left hm).symm
  | [_], m, hm => by simp only [maxGapAux, c06d_maxGap]; exact (max_eq_left hm).symm
  | a :: b :: r, m, hm => by
    simp only [maxGapAux, c06d_maxGap]
    rw [maxGapAux_eq (b :: r) _ (le_trans hm (le_max_left _ _)), max_assoc]

theorem maxGapL_eq (l : List ℚ) : maxGapL l = c06d_maxGap l := by
  unfold maxGapL
  rw [maxGapAux_eq l 0 (le_refl 0)]
  exact max_eq_right (c06d_maxGap_nonneg l)

theorem maxAbsAux_ge : ∀ (l : List ℚ) (m : ℚ), m ≤ maxAbsAux m l
  | [], m => le_refl m
  | v :: vs, m => by
    simp only [maxAbsAux]
    exact le_trans (le_max_left _ _) (maxAbsAux_ge vs _)

theorem maxAbsAux_mono : ∀ (l : List ℚ) (m m' : ℚ), m ≤ m' → maxAbsAux m l ≤ maxAbsAux m' l
  | [], m, m', h => h
  | v :: vs, m, m', h => by
    simp only [maxAbsAux]
    exact maxAbsAux_mono vs _ _ (max_le_max_right _ h)

theorem maxAbsL_nonneg (l : List ℚ) : 0 ≤ maxAbsL l := maxAbsAux_ge l 0

theorem abs_getD_le_maxAbsAux : ∀ (l : List ℚ) (m : ℚ) (i : ℕ), 0 ≤ m → |l.getD i 0| ≤ maxAbsAux m l
  | [], m, i, hm => by simpa [maxAbsAux] using hm
  | v :: vs, m, 0, hm => by
    simp only [List.getD_cons_zero, maxAbsAux]
    rw [← fabs_eq_abs]
    exact le_trans (le_max_right _ _) (maxAbsAux_ge vs _)
  | v :: vs, m, i + 1, hm => by
    simp only [List.getD_cons_succ, maxAbsAux]
    exact abs_getD_le_maxAbsAux vs _ i (le_trans hm (le_max_left _ _))

theorem abs_getD_le_maxAbsL (l : List ℚ) (i : ℕ) : |l.getD i 0| ≤ maxAbsL l :=
  abs_getD_le_maxAbsAux l 0 i (le_refl 0)

/-- on a sorted list the linear branch is monotone in the index target -/
theorem interp_mono_sorted (s : List ℚ) (hs : s.Pairwise (· ≤ ·)) (hne : s.length ≠ 0) (x y : ℚ)
    (hxy : x ≤ y) : interp s x ≤ interp s y := by
  have hx1 := Int.floor_le x
  have hx2 := Int.lt_floor_add_one x
  have hy1 := Int.floor_le y
  have hy2 := Int.lt_floor_add_one y
  have hij : ⌊x⌋ ≤ ⌊y⌋ := Int.floor_le_floor hxy
  have mx := c06d_S_mono s hs hne ⌊x⌋ (⌊x⌋ + 1) (by omega)
  have my := c06d_S_mono s hs hne ⌊y⌋ (⌊y⌋ + 1) (by omega)
  rcases eq_or_lt_of_le hij with he | hlt
  · rw [c06d_interp_cell s ⌊x⌋ x hx1 (le_of_lt hx2),
      c06d_interp_cell s ⌊x⌋ y (by rw [he]; exact hy1) (by rw [he]; exact le_of_lt hy2)]
    have : 0 ≤ (y - x) * (c06d_S s (⌊x⌋ + 1) - c06d_S s ⌊x⌋) :=
      mul_nonneg (by linarith) (by linarith)
    nlinarith
  · have hmid := c06d_S_mono s hs hne (⌊x⌋ + 1) ⌊y⌋ (by omega)
    rw [c06d_interp_cell s ⌊x⌋ x hx1 (le_of_lt hx2), c06d_interp_cell s ⌊y⌋ y hy1 (le_of_lt hy2)]
    have a1 : 0 ≤ ((⌊x⌋ : ℚ) + 1 - x) * (c06d_S s (⌊x⌋ + 1) - c06d_S s ⌊x⌋) :=
      mul_nonneg (by linarith) (by linarith)
    have a2 : 0 ≤ (y - (⌊y⌋ : ℚ)) * (c06d_S s (⌊y⌋ + 1) - c06d_S s ⌊y⌋) :=
      mul_nonneg (by linarith) (by linarith)
    nlinarith

/-- Lipschitz in the index target, absolute form -/
theorem interp_abs_lip (s : List ℚ) (hs : s.Pairwise (· ≤ ·)) (hne : s.length ≠ 0) (x y : ℚ) :
    |interp s y - interp s x| ≤ maxGapL s * |y - x| := by
  rw [maxGapL_eq]
  rcases le_total x y with hxy | hyx
  · have m := interp_mono_sorted s hs hne x y hxy
    have l := c06d_interp_lip s hne x y hxy
    rw [abs_of_nonneg (by linarith), abs_of_nonneg (by linarith)]
    exact l
  · have m := interp_mono_sorted s hs hne y x hyx
    have l := c06d_interp_lip s hne y x hyx
    rw [abs_of_nonpos (by linarith), abs_of_nonpos (by linarith)]
    linarith

/-- **Without the same-neighbours hypothesis.** For a sorted list the float threshold is within
`maxGap * dt + (2u + ((1+u)^3 - 1)(1 + 2u)) * max|s|` of the exact one: the float interpolation
is exact up to the weight rounding at ITS index target, and the exact interpolation is Lipschitz
in the index target.  (Covers targets on or next to a grid point `k/N`, where the float index
target may fall into the neighbouring cell.) -/
theorem threshold_fl_error_lip {fl : ℚ → ℚ} {u : ℚ} (h : Fl fl u) (ulp : Ulp) (s : List ℚ)
    (hs : s.Pairwise (· ≤ ·)) (hne : s.length ≠ 0)
    (r rt dr : ℚ) (lc : Bool) (hdr : |rt - r| ≤ dr)
    (hint : flInterior u s.length lc r dr = true) :
    |invertIncreasingFl fl ulp s rt lc .linear - invertIncreasing ulp s r lc .linear| ≤
      interpEpsLip u s (targetErr u s.length lc r dr) := by
  obtain ⟨h1, h0, h1t, h0t⟩ := interior_of_guard h s.length lc r rt dr hdr hint
  rw [invertIncreasingFl_interior fl ulp s rt lc h1t h0t, invertIncreasing_interior ulp s r lc h1 h0]
  have ht := target_fl_error h s lc r rt dr hdr
  set xt := indexTargetFl fl s rt lc
  set x := indexTarget s r lc
  have e1 := interpFl_error h s xt
  have e2 := interp_abs_lip s hs hne x xt
  have hG : 0 ≤ maxGapL s := by rw [maxGapL_eq]; exact c06d_maxGap_nonneg s
  have e3 : maxGapL s * |xt - x| ≤ maxGapL s * targetErr u s.length lc r dr :=
    mul_le_mul_of_nonneg_left ht hG
  -- the weight part in terms of the largest magnitude
  have hM := maxAbsL_nonneg s
  have ha := abs_getD_le_maxAbsL s (clampIdx xt.floor s.length)
  have hb := abs_getD_le_maxAbsL s (clampIdx (ceilQ xt) s.length)
  set a := s.getD (clampIdx xt.floor s.length) 0
  set b := s.getD (clampIdx (ceilQ xt) s.length) 0
  have e4 : interpEpsW u u a b ≤ (2 * u + gam3 u * (1 + 2 * u)) * maxAbsL s := by
    rw [interpEpsW_eq, gam3_eq]
    have g3 := gam3_nn h.u_nonneg
    have hu := h.u_nonneg
    have hab : |a - b| ≤ 2 * maxAbsL s := by
      have := abs_sub a b
      linarith
    have hmx : max |a| |b| ≤ maxAbsL s := max_le ha hb
    have t1 : u * |a - b| ≤ u * (2 * maxAbsL s) := mul_le_mul_of_nonneg_left hab hu
    have t2 : (1 + 2 * u) * max |a| |b| ≤ (1 + 2 * u) * maxAbsL s :=
      mul_le_mul_of_nonneg_left hmx (by linarith)
    have t3 := mul_le_mul_of_nonneg_left t2 g3
    have : (2 * u + ((1 + u) ^ 3 - 1) * (1 + 2 * u)) * maxAbsL s =
        u * (2 * maxAbsL s) + ((1 + u) ^ 3 - 1) * ((1 + 2 * u) * maxAbsL s) := by ring
    linarith
  have tri := abs_add_le (interpFl fl s xt - interp s xt) (interp s xt - interp s x)
  have e5 : interpFl fl s xt - interp s xt + (interp s xt - interp s x) =
      interpFl fl s xt - interp s x := by ring
  rw [e5] at tri
  unfold interpEpsLip interpEpsLipG
  linarith

/-! ## C. expressions: the requested target's way to `_invert_increasing_function` -/

/-- **Running error bound.** For every expression whose divisors are safely non-zero
(`FExpr.ok`), the value computed with rounding after every operation is within `FExpr.err` of
the exact value. -/
theorem FExpr.evalFl_error {fl : ℚ → ℚ} {u : ℚ} (h : Fl fl u) :
    ∀ e : FExpr, e.ok u = true → |e.evalFl fl - e.val| ≤ e.err u
  | .lit c, _ => by simp [FExpr.evalFl, FExpr.val, FExpr.err]
  | .add x y, hok => by
    simp only [FExpr.ok, Bool.and_eq_true] at hok
    have hx := FExpr.evalFl_error h x hok.1
    have hy := FExpr.evalFl_error h y hok.2
    simp only [FExpr.evalFl, FExpr.val, FExpr.err, FExpr.roundErr, fabs_eq_abs]
    exact h.add_round hx hy
  | .sub x y, hok => by
    simp only [FExpr.ok, Bool.and_eq_true] at hok
    have hx := FExpr.evalFl_error h x hok.1
    have hy := FExpr.evalFl_error h y hok.2
    simp only [FExpr.evalFl, FExpr.val, FExpr.err, FExpr.roundErr, fabs_eq_abs]
    exact h.sub_round hx hy
  | .mul x y, hok => by
    simp only [FExpr.ok, Bool.and_eq_true] at hok
    have hx := FExpr.evalFl_error h x hok.1
    have hy := FExpr.evalFl_error h y hok.2
    simp only [FExpr.evalFl, FExpr.val, FExpr.err, FExpr.roundErr, fabs_eq_abs]
    exact h.mul_round hx hy
  | .div x y, hok => by
    simp only [FExpr.ok, Bool.and_eq_true, decide_eq_true_eq, fabs_eq_abs] at hok
    have hx := FExpr.evalFl_error h x hok.1.1
    have hy := FExpr.evalFl_error h y hok.1.2
    simp only [FExpr.evalFl, FExpr.val, FExpr.err, FExpr.roundErr, fabs_eq_abs]
    exact h.div_round hx hy hok.2
  | .maxE x y, hok => by
    simp only [FExpr.ok, Bool.and_eq_true] at hok
    have hx := FExpr.evalFl_error h x hok.1
    have hy := FExpr.evalFl_error h y hok.2
    simp only [FExpr.evalFl, FExpr.val, FExpr.err]
    exact max_perturb hx hy
  | .minE x y, hok => by
    simp only [FExpr.ok, Bool.and_eq_true] at hok
    have hx := FExpr.evalFl_error h x hok.1
    have hy := FExpr.evalFl_error h y hok.2
    simp only [FExpr.evalFl, FExpr.val, FExpr.err]
    exact min_perturb hx hy

/-- with `fl = id` an expression evaluates to its exact value -/
theorem FExpr.evalFl_id : ∀ e : FExpr, e.evalFl id = e.val
  | .lit _ => rfl
  | .add x y => by simp only [FExpr.evalFl, FExpr.val, id, FExpr.evalFl_id x, FExpr.evalFl_id y]
  | .sub x y => by simp only [FExpr.evalFl, FExpr.val, id, FExpr.evalFl_id x, FExpr.evalFl_id y]
  | .mul x y => by simp only [FExpr.evalFl, FExpr.val, id, FExpr.evalFl_id x, FExpr.evalFl_id y]
  | .div x y => by simp only [FExpr.evalFl, FExpr.val, id, FExpr.evalFl_id x, FExpr.evalFl_id y]
  | .maxE x y => by simp only [FExpr.evalFl, FExpr.val, FExpr.evalFl_id x, FExpr.evalFl_id y]
  | .minE x y => by simp only [FExpr.evalFl, FExpr.val, FExpr.evalFl_id x, FExpr.evalFl_id y]

theorem hardPosRatioE_val (s : Scores) : s.hardPosRatioE.val = s.hardPosRatio := by
  unfold Scores.hardPosRatioE Scores.hardPosRatio
  split <;> simp only [FExpr.val]

theorem hardNegRatioE_val (s : Scores) : s.hardNegRatioE.val = s.hardNegRatio := by
  unfold Scores.hardNegRatioE Scores.hardNegRatio
  split <;> simp only [FExpr.val]

theorem hardRatioE_val (s : Scores) : s.hardRatioE.val = s.hardRatio := by
  unfold Scores.hardRatioE Scores.hardRatio Scores.easyRatio
  split <;> simp only [FExpr.val]

/-- the expression computes the model's rescaled target -/
theorem rescaleE_val (s : Scores) (metric : Metric) (r : ℚ) :
    (s.rescaleE metric r).val = s.rescale metric r := by
  cases metric <;>
    simp only [Scores.rescaleE, Scores.rescale, FExpr.val, hardPosRatioE_val, hardNegRatioE_val,
      hardRatioE_val]

/-- ... and the model's normalised target -/
theorem ratioE_val (s : Scores) (metric : Metric) (r : ℚ) :
    (s.ratioE metric r).val = normTarget s metric r := by
  unfold Scores.ratioE normaliseE normTarget evenFlips
  obtain ⟨sc, ec⟩ := s.cfg
  cases hi : metric.increasing <;> cases sc <;>
    simp [FExpr.val, rescaleE_val]

/-- the float computation of `threshold_at_<metric>` is `invertIncreasingFl` on the float ratio -/
theorem thresholdAtFl_eq (fl : ℚ → ℚ) (ulp : Ulp) (s : Scores) (metric : Metric) (r : ℚ) :
    s.thresholdAtFl fl ulp metric r .linear =
      invertIncreasingFl fl ulp (s.metricArray metric) ((s.ratioE metric r).evalFl fl)
        (normLc s.cfg metric.increasing metric.ratioClass) .linear := by
  unfold Scores.thresholdAtFl
  simp only [normalise_lc, normalise_method]
  split <;> rfl

/-- **From the requested target to the threshold.** `threshold_at_<metric>(r0)` (method
`linear`) computed in floating point — rescaling for easy samples, the `1 - r` normalisations,
the shift, the index target, the weight and the convex combination all rounded — against the
exact model, under the three executable checks `FExpr.ok`, `flInterior`, `flSameCell`. -/
theorem thresholdAt_fl_error {fl : ℚ → ℚ} {u : ℚ} (h : Fl fl u) (ulp : Ulp) (s : Scores)
    (metric : Metric) (r0 : ℚ) (hne : (s.metricArray metric).length ≠ 0)
    (hok : (s.ratioE metric r0).ok u = true)
    (hint : flInterior u (s.metricArray metric).length
      (normLc s.cfg metric.increasing metric.ratioClass) (normTarget s metric r0)
      ((s.ratioE metric r0).err u) = true)
    (hcell : flSameCell u (s.metricArray metric)
      (normLc s.cfg metric.increasing metric.ratioClass) (normTarget s metric r0)
      ((s.ratioE metric r0).err u) = true) :
    ∃ t, s.thresholdAt ulp metric r0 .linear = .ok t ∧
      |s.thresholdAtFl fl ulp metric r0 .linear - t| ≤
        interpEpsR u (s.metricArray metric).length
          (normLc s.cfg metric.increasing metric.ratioClass) (normTarget s metric r0)
          ((s.ratioE metric r0).err u)
          ((s.metricArray metric).getD (clampIdx (indexTarget (s.metricArray metric)
            (normTarget s metric r0) (normLc s.cfg metric.increasing metric.ratioClass)).floor
            (s.metricArray metric).length) 0)
          ((s.metricArray metric).getD (clampIdx (ceilQ (indexTarget (s.metricArray metric)
            (normTarget s metric r0) (normLc s.cfg metric.increasing metric.ratioClass)))
            (s.metricArray metric).length) 0) := by
  refine ⟨_, thresholdAt_eq ulp s metric r0 .linear hne, ?_⟩
  have hm : (if evenFlips s.cfg metric.increasing then Method.linear else Method.linear.reverse) =
      Method.linear := by split <;> rfl
  rw [hm, thresholdAtFl_eq]
  have hdr := FExpr.evalFl_error h (s.ratioE metric r0) hok
  rw [ratioE_val] at hdr
  exact threshold_fl_error_checked h ulp _ _ _ _ _ hdr hint hcell

/-- the same without the same-neighbours check, for a sorted score array -/
theorem thresholdAt_fl_error_lip {fl : ℚ → ℚ} {u : ℚ} (h : Fl fl u) (ulp : Ulp) (s : Scores)
    (metric : Metric) (r0 : ℚ) (hne : (s.metricArray metric).length ≠ 0)
    (hs : (s.metricArray metric).Pairwise (· ≤ ·))
    (hok : (s.ratioE metric r0).ok u = true)
    (hint : flInterior u (s.metricArray metric).length
      (normLc s.cfg metric.increasing metric.ratioClass) (normTarget s metric r0)
      ((s.ratioE metric r0).err u) = true) :
    ∃ t, s.thresholdAt ulp metric r0 .linear = .ok t ∧
      |s.thresholdAtFl fl ulp metric r0 .linear - t| ≤
        interpEpsLip u (s.metricArray metric)
          (targetErr u (s.metricArray metric).length
            (normLc s.cfg metric.increasing metric.ratioClass) (normTarget s metric r0)
            ((s.ratioE metric r0).err u)) := by
  refine ⟨_, thresholdAt_eq ulp s metric r0 .linear hne, ?_⟩
  have hm : (if evenFlips s.cfg metric.increasing then Method.linear else Method.linear.reverse) =
      Method.linear := by split <;> rfl
  rw [hm, thresholdAtFl_eq]
  have hdr := FExpr.evalFl_error h (s.ratioE metric r0) hok
  rw [ratioE_val] at hdr
  exact threshold_fl_error_lip h ulp _ hs hne _ _ _ _ hdr hint

/-! ## D. the segment formula of `invert_pl_function` -/

/-- the weight `fl (fl (t - y0) / fl (y1 - y0))` of a crossing segment has RELATIVE error at
most `(1+u)^2 / (1-u) - 1`: the two differences are of exactly known floats -/
theorem segWeight_fl_error {fl : ℚ → ℚ} {u : ℚ} (h : Fl fl u) (y0 y1 t : ℚ)
    (hc : isCrossing y0 y1 t = true) :
    |fl (fl (t - y0) / fl (y1 - y0)) - (t - y0) / (y1 - y0)| ≤
      gamDiv u * ((t - y0) / (y1 - y0)) := by
  obtain ⟨hne, l0, l1⟩ := crossing_la y0 y1 t hc
  have hu0 := h.u_nonneg
  have hu1 := h.u_lt_one
  have hD : y1 - y0 ≠ 0 := by intro e; apply hne; linarith
  have hD' : 0 < |y1 - y0| := abs_pos.mpr hD
  have hN := h.rel (t - y0)
  have hDr := h.rel (y1 - y0)
  have hey : u * |y1 - y0| < |y1 - y0| := by nlinarith
  have e := h.div_round hN hDr hey
  have hla : |(t - y0) / (y1 - y0)| = (t - y0) / (y1 - y0) := abs_of_nonneg l0
  have hla' : (t - y0) / (y1 - y0) = |t - y0| / |y1 - y0| := by rw [← abs_div, hla]
  rw [hla] at e
  rw [hla'] at e ⊢
  set N := |t - y0|
  set D := |y1 - y0|
  have h1u : (1 - u) ≠ 0 := by intro e; linarith
  have hDne : D ≠ 0 := ne_of_gt hD'
  have key : (u * N * D + u * D * N) / (D * (D - u * D)) +
      u * (N / D + (u * N * D + u * D * N) / (D * (D - u * D))) = gamDiv u * (N / D) := by
    unfold gamDiv
    have : D - u * D = D * (1 - u) := by ring
    rw [this]
    field_simp
    ring
  rw [key] at e
  exact e

/-- **`segPoint_fl_error`.** One crossing segment of `invert_pl_function`:
`la = (t - y[j]) / (y[j+1] - y[j])`, `z = (1 - la) * x[j] + la * x[j+1]`, every operation
rounded, against the exact model `segPoint`:
`|z~ - z| ≤ g * |x1 - x0| + ((1+u)^3 - 1) * (1 + 2 g) * max |x0| |x1|`, `g = (1+u)^2/(1-u) - 1`. -/
theorem segPoint_fl_error {fl : ℚ → ℚ} {u : ℚ} (h : Fl fl u) (x y : List ℚ) (t : ℚ) (j : ℕ)
    (hc : isCrossing (y.getD j 0) (y.getD (j + 1) 0) t = true) :
    |segPointFl fl x y t j - segPoint x y t j| ≤ plEps u (x.getD j 0) (x.getD (j + 1) 0) := by
  obtain ⟨_, l0, l1⟩ := crossing_la _ _ t hc
  have hw := segWeight_fl_error h _ _ t hc
  have g0 := gamDiv_nonneg h.u_nonneg h.u_lt_one
  have hw' : |fl (fl (t - y.getD j 0) / fl (y.getD (j + 1) 0 - y.getD j 0)) -
      (t - y.getD j 0) / (y.getD (j + 1) 0 - y.getD j 0)| ≤ gamDiv u := by
    have : gamDiv u * ((t - y.getD j 0) / (y.getD (j + 1) 0 - y.getD j 0)) ≤ gamDiv u * 1 :=
      mul_le_mul_of_nonneg_left (le_of_lt l1) g0
    linarith
  have e := interp_fl_error_perturbed' h _ _ (gamDiv u) (x.getD (j + 1) 0) (x.getD j 0) l0
    (le_of_lt l1) hw'
  unfold plEps
  have e1 : segPointFl fl x y t j = interpEval fl
      (fl (fl (t - y.getD j 0) / fl (y.getD (j + 1) 0 - y.getD j 0)))
      (x.getD (j + 1) 0) (x.getD j 0) := by
    unfold segPointFl interpEval
    simp only []
    rw [add_comm]
  have e2 : segPoint x y t j = (t - y.getD j 0) / (y.getD (j + 1) 0 - y.getD j 0) * x.getD (j + 1) 0 +
      (1 - (t - y.getD j 0) / (y.getD (j + 1) 0 - y.getD j 0)) * x.getD j 0 := by
    unfold segPoint
    simp only []
    rw [add_comm]
  rw [e1, e2]
  exact e

/-- closed form of `plEps` -/
theorem plEps_eq (u x0 x1 : ℚ) : plEps u x0 x1 =
    ((1 + u) ^ 2 / (1 - u) - 1) * |x1 - x0| +
      ((1 + u) ^ 3 - 1) * ((1 + 2 * ((1 + u) ^ 2 / (1 - u) - 1)) * max |x1| |x0|) := by
  unfold plEps
  rw [interpEpsW_eq, gamDiv_eq]

/-- bracket for the float crossing point: inside the segment up to the bound -/
theorem segPoint_fl_bracket {fl : ℚ → ℚ} {u : ℚ} (h : Fl fl u) {x y : List ℚ} (hxy : PLInput x y)
    (t : ℚ) (j : ℕ) (hj : j ∈ crossIdx y t) :
    x.getD j 0 - plEps u (x.getD j 0) (x.getD (j + 1) 0) ≤ segPointFl fl x y t j ∧
      segPointFl fl x y t j < x.getD (j + 1) 0 + plEps u (x.getD j 0) (x.getD (j + 1) 0) := by
  obtain ⟨_, hc⟩ := (mem_crossIdx y t j).mp hj
  obtain ⟨s1, s2, _, _⟩ := segPoint_spec hxy t j hj
  have e := abs_le.mp (segPoint_fl_error h x y t j hc)
  constructor <;> linarith [e.1, e.2]

/-! ## E. consistency: with `fl = id` the float versions are the exact models -/

theorem invertIncreasingFl_id (ulp : Ulp) (s : List ℚ) (r : ℚ) (lc : Bool) (m : Method) :
    invertIncreasingFl id ulp s r lc m = invertIncreasing ulp s r lc m := rfl

theorem segPointFl_id (x y : List ℚ) (t : ℚ) (j : ℕ) : segPointFl id x y t j = segPoint x y t j :=
  rfl

theorem thresholdAtFl_id (ulp : Ulp) (s : Scores) (metric : Metric) (r : ℚ)
    (hne : (s.metricArray metric).length ≠ 0) :
    s.thresholdAt ulp metric r .linear = .ok (s.thresholdAtFl id ulp metric r .linear) := by
  rw [thresholdAt_eq ulp s metric r .linear hne, thresholdAtFl_eq, FExpr.evalFl_id, ratioE_val,
    invertIncreasingFl_id]
  have hm : (if evenFlips s.cfg metric.increasing then Method.linear else Method.linear.reverse) =
      Method.linear := by split <;> rfl
  rw [hm]

/-! ## F. the hypotheses are jointly satisfiable (non-identity roundings, concrete data) -/

/-- double precision unit roundoff, results rounded away from zero by the full relative amount -/
def exFl (x : ℚ) : ℚ := x * (1 + 1 / 2 ^ 53)

theorem exFl_model : Fl exFl (1 / 2 ^ 53) := Fl_scale_up (1 / 2 ^ 53) (by norm_num) (by norm_num)

theorem exFl_ne_id : exFl 1 ≠ 1 := by unfold exFl; norm_num

/-- `interp_fl_error`, `interp_fl_error_perturbed`, `interp_fl_bracket`: a model, a weight in
`[0,1]` and a perturbed weight -/
example : Fl exFl (1 / 2 ^ 53) ∧ (0 : ℚ) ≤ 1 / 3 ∧ (1 / 3 : ℚ) ≤ 1 ∧
    |exFl (1 / 3) - 1 / 3| ≤ (1 / 2 ^ 53 : ℚ) := by
  refine ⟨exFl_model, by norm_num, by norm_num, ?_⟩
  unfold exFl; rw [abs_le]; constructor <;> norm_num

/-- `threshold_fl_error` / `threshold_fl_bracket` without shift: four scores, target ratio
`3/10` (index target `6/5`, neighbours `s[1] = 2`, `s[2] = 4`); the rounded index target
`6/5 * (1 + 2^-53)` stays in the same cell -/
example : Fl exFl (1 / 2 ^ 53) ∧ |(3 / 10 : ℚ) - 3 / 10| ≤ 0 ∧ (3 / 10 : ℚ) < 1 ∧
    0 < (if true then (3 / 10 : ℚ) else 3 / 10 - 1 / (([1, 2, 4, 8] : List ℚ).length : ℚ)) ∧
    0 < (if true then (3 / 10 : ℚ) else exFl (3 / 10 - exFl (1 / (([1, 2, 4, 8] : List ℚ).length : ℚ)))) ∧
    (indexTargetFl exFl [1, 2, 4, 8] (3 / 10) true).floor = (indexTarget [1, 2, 4, 8] (3 / 10) true).floor ∧
    ceilQ (indexTargetFl exFl [1, 2, 4, 8] (3 / 10) true) = ceilQ (indexTarget [1, 2, 4, 8] (3 / 10) true) ∧
    indexTargetFl exFl [1, 2, 4, 8] (3 / 10) true ≠ indexTarget [1, 2, 4, 8] (3 / 10) true := by
  refine ⟨exFl_model, by norm_num, by norm_num, by norm_num, by norm_num, ?_, ?_, ?_⟩ <;>
    decide +kernel

/-- the same with the shift by `1/N` and an inexact ratio (`dr = 2^-50`) -/
example : Fl exFl (1 / 2 ^ 53) ∧ |(3 / 10 + 1 / 2 ^ 51 : ℚ) - 3 / 10| ≤ 1 / 2 ^ 50 ∧ (3 / 10 : ℚ) < 1 ∧
    0 < (if false then (3 / 10 : ℚ) else 3 / 10 - 1 / (([1, 2, 4, 8] : List ℚ).length : ℚ)) ∧
    (3 / 10 + 1 / 2 ^ 51 : ℚ) < 1 ∧
    0 < (if false then (3 / 10 + 1 / 2 ^ 51 : ℚ) else
      exFl (3 / 10 + 1 / 2 ^ 51 - exFl (1 / (([1, 2, 4, 8] : List ℚ).length : ℚ)))) ∧
    (indexTargetFl exFl [1, 2, 4, 8] (3 / 10 + 1 / 2 ^ 51) false).floor =
      (indexTarget [1, 2, 4, 8] (3 / 10) false).floor ∧
    ceilQ (indexTargetFl exFl [1, 2, 4, 8] (3 / 10 + 1 / 2 ^ 51) false) =
      ceilQ (indexTarget [1, 2, 4, 8] (3 / 10) false) := by
  refine ⟨exFl_model, ?_, by norm_num, ?_, by norm_num, ?_, ?_, ?_⟩
  · rw [abs_le]; constructor <;> norm_num
  all_goals decide +kernel

/-- `threshold_fl_error_checked`, `threshold_fl_error_lip`: the executable guards hold on the
same data (and the list is sorted and non-empty) -/
example : flInterior (1 / 2 ^ 53) ([1, 2, 4, 8] : List ℚ).length false (3 / 10) (1 / 2 ^ 50) = true ∧
    flSameCell (1 / 2 ^ 53) [1, 2, 4, 8] false (3 / 10) (1 / 2 ^ 50) = true ∧
    ([1, 2, 4, 8] : List ℚ).Pairwise (· ≤ ·) ∧ ([1, 2, 4, 8] : List ℚ).length ≠ 0 := by
  refine ⟨?_, ?_, ?_, ?_⟩ <;> decide +kernel

/-- the guard `flSameCell` fails exactly where it should: a target on the grid (`r = 1/2`,
index target `2`) -/
example : flSameCell (1 / 2 ^ 53) [1, 2, 4, 8] true (1 / 2) 0 = false := by decide +kernel

/-- `FExpr.evalFl_error`: the TPR rescaling `(0.9 * 64 - 56) / 8` (8 scored, 56 easy positives):
the expression is `ok`, and its error bound is about `37 u` although the value is only `0.2` -/
example : (FExpr.div (.sub (.mul (.lit (9 / 10)) (.lit 64)) (.lit 56)) (.lit 8)).ok (1 / 2 ^ 53) = true ∧
    (FExpr.div (.sub (.mul (.lit (9 / 10)) (.lit 64)) (.lit 56)) (.lit 8)).val = 1 / 5 ∧
    36 * (1 / 2 ^ 53 : ℚ) * (1 / 5) <
      (FExpr.div (.sub (.mul (.lit (9 / 10)) (.lit 64)) (.lit 56)) (.lit 8)).err (1 / 2 ^ 53) := by
  refine ⟨?_, ?_, ?_⟩ <;> decide +kernel

/-- `thresholdAt_fl_error` / `thresholdAt_fl_error_lip`: an object with easy samples and a
non-default configuration; all three executable checks hold -/
example :
    let s : Scores := ⟨[1, 2, 4, 8], [0, 3], 3, 1, ⟨.neg, .pos⟩⟩
    (s.metricArray .tpr).length ≠ 0 ∧ (s.metricArray .tpr).Pairwise (· ≤ ·) ∧
    (s.ratioE .tpr (7 / 10)).ok (1 / 2 ^ 53) = true ∧
    flInterior (1 / 2 ^ 53) (s.metricArray .tpr).length
      (normLc s.cfg Metric.tpr.increasing Metric.tpr.ratioClass) (normTarget s .tpr (7 / 10))
      ((s.ratioE .tpr (7 / 10)).err (1 / 2 ^ 53)) = true ∧
    flSameCell (1 / 2 ^ 53) (s.metricArray .tpr)
      (normLc s.cfg Metric.tpr.increasing Metric.tpr.ratioClass) (normTarget s .tpr (7 / 10))
      ((s.ratioE .tpr (7 / 10)).err (1 / 2 ^ 53)) = true := by
  intro s
  refine ⟨?_, ?_, ?_, ?_, ?_⟩ <;> decide +kernel

/-- `segPoint_fl_error`, `segPoint_fl_bracket`: a documented input with a crossing segment -/
example : PLInput [0, 1, 3] [0, 2, 1] ∧ 0 ∈ crossIdx [0, 2, 1] (1 / 2) ∧
    isCrossing (([0, 2, 1] : List ℚ).getD 0 0) (([0, 2, 1] : List ℚ).getD 1 0) (1 / 2) = true ∧
    segPointFl exFl [0, 1, 3] [0, 2, 1] (1 / 2) 0 ≠ segPoint [0, 1, 3] [0, 2, 1] (1 / 2) 0 := by
  refine ⟨⟨by decide +kernel, rfl, ?_⟩, by decide +kernel, by decide +kernel, by decide +kernel⟩
  intro j hj
  have : j = 0 ∨ j = 1 := by simp at hj; omega
  rcases this with rfl | rfl <;> decide +kernel

/-- a worked instance of the bound: four scores, ratio `3/10`, `u = 2^-53`:
`interpEps < 17 u` (neighbours `2` and `4`; `ulp 4 = 8 u`, so about 2 ulp of the larger one) -/
example : interpEps (1 / 2 ^ 53) 4 (3 / 10) 2 4 < 17 * (1 / 2 ^ 53) := by decide +kernel

end SA
