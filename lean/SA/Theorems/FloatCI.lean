/-
C04, floating point: `utils.binomial_ci` and the `*_ci` wrappers under the standard model
`Fl fl u`, with `np.sqrt` an oracle rounded once (see `SA/Model/FloatCI.lean` for the float model).

* `sqrt_perturb`     `0 ≤ a`, `0 < b`, `|a^2 - b^2| ≤ E < 2 b^2`  →  `|a - b| ≤ E / (2b - E/b)`
* `ci_sigma_error`   the float standard deviation `np.sqrt(v~)` against the exact side's `σ ≈ sqrt v`
* **`ci_fl_error`**  both limits of the float interval against the exact model `binomialCI`:
                     `|lo~ - lo| ≤ (ciEps ..).1`, `|hi~ - hi| ≤ (ciEps ..).2`, under the executable guard
                     `ciOKGuard` (evaluated by the driver)
* `ci_fl_error_wrappers`  the same for `tpr_ci`, `tnr_ci`, `fpr_ci`, `fnr_ci` of a matrix (class total = one
                     rounded addition of two cells)
* `ciFl_id`          with `fl = id` and an exact square root the float version is the exact model
-/
import SA.Model.FloatCI
import SA.Theorems.FloatBounds
import SA.Theorems.C04

namespace SA

/-- two non-negative numbers whose squares are close are close -/
theorem sqrt_perturb {a b E : ℚ} (ha : 0 ≤ a) (hb : 0 < b) (hE : |a * a - b * b| ≤ E)
    (hEb : E < 2 * (b * b)) : |a - b| ≤ E / (2 * b - E / b) := by
  have hab : 0 < a + b := by linarith
  have e1 : |a - b| * (a + b) = |a * a - b * b| := by
    have : a * a - b * b = (a - b) * (a + b) := by ring
    rw [this, abs_mul, abs_of_pos hab]
  have hd0 : 0 ≤ |a - b| := abs_nonneg _
  have s1 : |a - b| ≤ E / b := by
    rw [le_div_iff₀ hb]
    have : |a - b| * b ≤ |a - b| * (a + b) := mul_le_mul_of_nonneg_left (by linarith) hd0
    linarith
  have hEb' : E / b < 2 * b := by
    rw [div_lt_iff₀ hb]; linarith
  have hD : 0 < 2 * b - E / b := by linarith
  have ha' : b - E / b ≤ a := by
    have := (abs_le.mp s1).1
    linarith
  rw [le_div_iff₀ hD]
  have : |a - b| * (2 * b - E / b) ≤ |a - b| * (a + b) :=
    mul_le_mul_of_nonneg_left (by linarith) hd0
  linarith

theorem ciErr_nonneg {fl : ℚ → ℚ} {u : ℚ} (h : Fl fl u) (e : FExpr) (hok : e.ok u = true) :
    0 ≤ e.err u := le_trans (abs_nonneg _) (FExpr.evalFl_error h e hok)

/-- **The float standard deviation.** `σ~ = np.sqrt(v~)` (non-negative, `|σ~^2 - v~| ≤ ((1+u)^2-1) v~`)
for a float radicand within `ev` of the exact radicand `v`, against `σ > 0` with
`|σ^2 - v| ≤ κ v`. -/
theorem ci_sigma_error {u kap v vt ev sig sigt : ℚ} (hu : 0 ≤ u) (hv : |vt - v| ≤ ev)
    (hs0 : 0 ≤ sigt) (hs : |sigt * sigt - vt| ≤ gam2 u * vt)
    (hsig : 0 < sig) (hkap : |sig * sig - v| ≤ kap * v)
    (hE : ciSqErr u kap v ev < 2 * (sig * sig)) :
    |sigt - sig| ≤ ciSigErr sig (ciSqErr u kap v ev) := by
  have hv' := abs_le.mp hv
  have g0 := gam2_nonneg hu
  have h1 : gam2 u * vt ≤ gam2 u * (v + ev) := mul_le_mul_of_nonneg_left (by linarith) g0
  have hsq : |sigt * sigt - sig * sig| ≤ ciSqErr u kap v ev := by
    unfold ciSqErr
    have e : sigt * sigt - sig * sig = (sigt * sigt - vt) + (vt - v) + (v - sig * sig) := by ring
    rw [e]
    have t1 := abs_add_le ((sigt * sigt - vt) + (vt - v)) (v - sig * sig)
    have t2 := abs_add_le (sigt * sigt - vt) (vt - v)
    rw [abs_sub_comm v (sig * sig)] at t1
    linarith
  exact sqrt_perturb hs0 hsig hsq hE

/-- **`ci_fl_error`.** `utils.binomial_ci` for one entry, every arithmetic operation rounded and
`np.sqrt` an oracle rounded once, against the exact model `binomialCI z sq count nobs`; `σ = sq v`
is the exact side's square root of the exact radicand, accurate to `κ` (`|σ^2 - v| ≤ κ v`). -/
theorem ci_fl_error {fl sqf : ℚ → ℚ} {u : ℚ} (h : Fl fl u) (z kap : ℚ) (sq : ℚ → ℚ)
    (cE nE : FExpr)
    (hs0 : 0 ≤ sqf ((ciVarE cE nE).evalFl fl))
    (hs : |sqf ((ciVarE cE nE).evalFl fl) * sqf ((ciVarE cE nE).evalFl fl) -
      (ciVarE cE nE).evalFl fl| ≤ gam2 u * (ciVarE cE nE).evalFl fl)
    (hg : ciOKGuard u kap (sq (ciVarE cE nE).val) cE nE = true) :
    ∃ lo hi, binomialCI z sq cE.val nE.val = some (lo, hi) ∧
      |(ciFl fl sqf z cE nE).1 - lo| ≤ (ciEps u kap z (sq (ciVarE cE nE).val) cE nE).1 ∧
      |(ciFl fl sqf z cE nE).2 - hi| ≤ (ciEps u kap z (sq (ciVarE cE nE).val) cE nE).2 := by
  unfold ciOKGuard at hg
  simp only [Bool.and_eq_true, decide_eq_true_eq, fabs_eq_abs] at hg
  obtain ⟨⟨⟨⟨hok, hsig⟩, hkap⟩, hev⟩, hE⟩ := hg
  -- the pieces of the guard `ok`
  have hok' := hok
  simp only [ciVarE, FExpr.ok, Bool.and_eq_true, decide_eq_true_eq, fabs_eq_abs] at hok'
  obtain ⟨⟨⟨hpok, _⟩, hnok⟩, hnerr⟩ := hok'
  have hn0 : nE.val ≠ 0 := by
    intro e0
    have := ciErr_nonneg h nE hnok
    rw [e0, abs_zero] at hnerr
    linarith
  have hp := FExpr.evalFl_error h (ciPE cE nE) hpok
  have hv := FExpr.evalFl_error h (ciVarE cE nE) hok
  have hsg := ci_sigma_error h.u_nonneg hv hs0 hs hsig hkap hE
  set sig := sq (ciVarE cE nE).val
  set sigt := sqf ((ciVarE cE nE).evalFl fl)
  set esig := ciSigErr sig (ciSqErr u kap (ciVarE cE nE).val ((ciVarE cE nE).err u))
  -- dist = fl (z * σ~)
  have hzs : |z * sigt - z * sig| ≤ |z| * esig := by
    rw [← mul_sub, abs_mul]
    exact mul_le_mul_of_nonneg_left hsg (abs_nonneg z)
  have hd := h.round_err hzs
  have hlo := h.sub_round hp hd
  have hhi := h.add_round hp hd
  refine ⟨(ciPE cE nE).val - z * sig, (ciPE cE nE).val + z * sig, ?_, ?_, ?_⟩
  · unfold binomialCI divQ
    simp only [hn0, if_false]
    rfl
  · simp only [ciFl, ciEps, ciDistErr, FExpr.roundErr, fabs_eq_abs]
    exact hlo
  · simp only [ciFl, ciEps, ciDistErr, FExpr.roundErr, fabs_eq_abs]
    exact hhi

/-- under the guard the float radicand is non-negative: `np.sqrt` is applied inside its domain (the
hypotheses on `sqf` in `ci_fl_error` are those of a correctly rounded square root there) -/
theorem ci_radicand_nonneg {fl : ℚ → ℚ} {u : ℚ} (h : Fl fl u) (kap sig : ℚ) (cE nE : FExpr)
    (hg : ciOKGuard u kap sig cE nE = true) : 0 ≤ (ciVarE cE nE).evalFl fl := by
  unfold ciOKGuard at hg
  simp only [Bool.and_eq_true, decide_eq_true_eq] at hg
  obtain ⟨⟨⟨⟨hok, _⟩, _⟩, hev⟩, _⟩ := hg
  have hv := abs_le.mp (FExpr.evalFl_error h (ciVarE cE nE) hok)
  linarith [hv.1]

/-- **The four wrappers** `tpr_ci`, `tnr_ci`, `fpr_ci`, `fnr_ci` of metrics.py: `count` is a cell,
`nobs` the class total `np.sum(matrix[..., r, :])`, one rounded addition of two cells; the exact
model's interval is `m.tprCI` etc. (`CMq.ciExprs` lists the four pairs in that order). -/
theorem ci_fl_error_wrappers {fl sqf : ℚ → ℚ} {u : ℚ} (h : Fl fl u) (z kap : ℚ) (sq : ℚ → ℚ)
    (m : CMq) (cE nE : FExpr) (hmem : (cE, nE) ∈ m.ciExprs)
    (hs0 : 0 ≤ sqf ((ciVarE cE nE).evalFl fl))
    (hs : |sqf ((ciVarE cE nE).evalFl fl) * sqf ((ciVarE cE nE).evalFl fl) -
      (ciVarE cE nE).evalFl fl| ≤ gam2 u * (ciVarE cE nE).evalFl fl)
    (hg : ciOKGuard u kap (sq (ciVarE cE nE).val) cE nE = true) :
    ∃ lo hi, some (lo, hi) ∈ [m.tprCI z sq, m.tnrCI z sq, m.fprCI z sq, m.fnrCI z sq] ∧
      binomialCI z sq cE.val nE.val = some (lo, hi) ∧
      |(ciFl fl sqf z cE nE).1 - lo| ≤ (ciEps u kap z (sq (ciVarE cE nE).val) cE nE).1 ∧
      |(ciFl fl sqf z cE nE).2 - hi| ≤ (ciEps u kap z (sq (ciVarE cE nE).val) cE nE).2 := by
  obtain ⟨lo, hi, e, b1, b2⟩ := ci_fl_error h z kap sq cE nE hs0 hs hg
  refine ⟨lo, hi, ?_, e, b1, b2⟩
  simp only [CMq.ciExprs, List.mem_cons, Prod.mk.injEq, List.not_mem_nil, or_false] at hmem
  rcases hmem with ⟨rfl, rfl⟩ | ⟨rfl, rfl⟩ | ⟨rfl, rfl⟩ | ⟨rfl, rfl⟩ <;>
    simp only [FExpr.val] at e <;>
    simp [CMq.tprCI, CMq.tnrCI, CMq.fprCI, CMq.fnrCI, CMq.p, CMq.n, e]

/-- with `fl = id` and a square root that is exact on the radicand the float version is the
exact model -/
theorem ciFl_id (z : ℚ) (sq : ℚ → ℚ) (cE nE : FExpr) (hn : nE.val ≠ 0) :
    binomialCI z sq cE.val nE.val = some (ciFl id sq z cE nE) := by
  unfold binomialCI divQ ciFl
  simp only [hn, if_false, FExpr.evalFl_id, id]
  rfl

/-! ### the hypotheses are jointly satisfiable (non-identity rounding, concrete data) -/

/-- `sqrt (4/125) = 0.17888543819998317...` to about 20 digits -/
def ciExSig : ℚ := 25780108570222467867 / 144115188075855872000

/-- `tpr_ci`-like data: `count = 1`, `nobs = 2 + 3` (a rounded sum), `p = 1/5`, `v = 4/125`; the
rounding `exFl` (every result rounded up by the full relative amount, not the identity); the float
square root returns `σ (1 + u)`; the exact side's `σ` is accurate to `κ = 2^-60`; `z = 2`.
All hypotheses of `ci_fl_error` hold, and the float lower limit differs from the exact one. -/
example :
    let cE : FExpr := .lit 1
    let nE : FExpr := .add (.lit 2) (.lit 3)
    let sqf : ℚ → ℚ := fun _ => ciExSig * (1 + 1 / 2 ^ 53)
    let sq : ℚ → ℚ := fun _ => ciExSig
    Fl exFl (1 / 2 ^ 53) ∧ 0 ≤ sqf ((ciVarE cE nE).evalFl exFl) ∧
    |sqf ((ciVarE cE nE).evalFl exFl) * sqf ((ciVarE cE nE).evalFl exFl) -
      (ciVarE cE nE).evalFl exFl| ≤ gam2 (1 / 2 ^ 53) * (ciVarE cE nE).evalFl exFl ∧
    ciOKGuard (1 / 2 ^ 53) (1 / 2 ^ 60) (sq (ciVarE cE nE).val) cE nE = true ∧
    (ciVarE cE nE).val = 4 / 125 ∧
    (ciFl exFl sqf 2 cE nE).1 ≠ 1 / 5 - 2 * ciExSig := by
  intro cE nE sqf sq
  refine ⟨exFl_model, by decide +kernel, ?_, by decide +kernel, by decide +kernel, by decide +kernel⟩
  rw [← fabs_eq_abs]
  decide +kernel

/-- a worked instance of the bound on that data (`u = 2^-53`, `κ = 2^-60`, `z = 2`): both limits within
`3 u` (the limits are `-0.158` and `0.558`; the radicand carries about `6.5 u` relative error, the
standard deviation half of that plus its own rounding) -/
example : (ciEps (1 / 2 ^ 53) (1 / 2 ^ 60) 2 ciExSig (.lit 1) (.add (.lit 2) (.lit 3))).1 <
      3 * (1 / 2 ^ 53) ∧
    (ciEps (1 / 2 ^ 53) (1 / 2 ^ 60) 2 ciExSig (.lit 1) (.add (.lit 2) (.lit 3))).2 <
      3 * (1 / 2 ^ 53) := by
  constructor <;> decide +kernel

/-- the guard fails where it should: `count = nobs` (`p = 1`, radicand 0: no positive `σ`) -/
example : ciOKGuard (1 / 2 ^ 53) (1 / 2 ^ 60) 0 (.lit 5) (.add (.lit 2) (.lit 3)) = false := by
  decide +kernel

end SA
