/-
C15, floating point: the support thresholds of `roc()` are `threshold_at_fnr` / `threshold_at_fpr`
results for supplied targets (exact doubles: `SA.thresholdAt_fl_error`) and for the targets
`np.linspace(0.0, 1.0, k)`, which are themselves rounded.  This file carries the bound over to
targets that are floating-point EXPRESSIONS, in particular `linspace[i] = fl (i * fl (1 / (k-1)))`.

* `linspaceEs_val`            the expressions denote the exact model's targets `linspace01 k`
* `ratioEx_val`, `ratioEx_lit`  the generalised target expression; a literal gives back `ratioE`
* `thresholdAtE_fl_error`     float threshold for a float-computed target against the exact model's
                              threshold at the exact target (same neighbours), `..._lip` (any cell)
* `C15_linspace_fl_error`     the default support points of `roc(nb_points = 2k)`: every entry of the
                              exact model's `thresholdAtArr (linspace01 k)` is within the bound of
                              the float computation on the float linspace entry
* `thresholdAtFlE_id`         with `fl = id` the float version is the exact model
-/
import SA.Model.FloatRoc
import SA.Theorems.FloatBounds
import SA.Theorems.C15

namespace SA

/-! ### the targets -/

theorem linspaceE_val (k i : ℕ) (hi : i < k) :
    (linspaceE k i).val = if k = 1 then 0 else (i : ℚ) / ((k - 1 : ℕ) : ℚ) := by
  unfold linspaceE
  by_cases h1 : k ≤ 1
  · have hk : k = 1 := by omega
    subst hk
    simp [FExpr.val]
  · simp only [h1, if_false]
    have hk : ¬ k = 1 := by omega
    simp only [hk, if_false]
    by_cases hl : i + 1 = k
    · simp only [hl, if_true, FExpr.val]
      have : ((k - 1 : ℕ) : ℚ) = (i : ℚ) := by
        have : k - 1 = i := by omega
        rw [this]
      rw [this, div_self]
      have : 0 < i := by omega
      exact_mod_cast this.ne'
    · simp only [hl, if_false, FExpr.val]
      ring

/-- the float linspace entries denote the exact model's targets -/
theorem linspaceEs_val (k : ℕ) : (linspaceEs k).map FExpr.val = linspace01 k := by
  unfold linspaceEs linspace01
  rw [List.map_map]
  by_cases hk : k = 1
  · subst hk
    simp [linspaceE, FExpr.val]
  · rw [if_neg hk]
    apply List.map_congr_left
    intro i hi
    have hi' : i < k := List.mem_range.mp hi
    simp only [Function.comp, linspaceE_val k i hi', hk, if_false]

/-- a target produced by `linspace` is within `(2u + u^2) * i/(k-1)` of `i/(k-1)`:
the running bound of `i * (1 / (k-1))` -/
theorem linspaceE_err (u : ℚ) (k i : ℕ) (h1 : 1 < k) (hl : i + 1 ≠ k) :
    (linspaceE k i).err u = u * |1 / ((k - 1 : ℕ) : ℚ)| * |(i : ℚ)| +
      u * (|(i : ℚ) * (1 / ((k - 1 : ℕ) : ℚ))| + u * |1 / ((k - 1 : ℕ) : ℚ)| * |(i : ℚ)|) := by
  unfold linspaceE
  have : ¬ k ≤ 1 := by omega
  simp only [this, if_false, hl, FExpr.err, FExpr.val, FExpr.roundErr, fabs_eq_abs, zero_mul,
    add_zero, zero_add, zero_div]

/-! ### the target's way to `_invert_increasing_function` -/

theorem rescaleEx_val (s : Scores) (metric : Metric) (e : FExpr) :
    (s.rescaleEx metric e).val = s.rescale metric e.val := by
  cases metric <;>
    simp only [Scores.rescaleEx, Scores.rescale, FExpr.val, hardPosRatioE_val, hardNegRatioE_val,
      hardRatioE_val]

theorem rescaleEx_lit (s : Scores) (metric : Metric) (r : ℚ) :
    s.rescaleEx metric (.lit r) = s.rescaleE metric r := by
  cases metric <;> rfl

/-- for an exactly known double the generalised expression is the one of `thresholdAt_fl_error` -/
theorem ratioEx_lit (s : Scores) (metric : Metric) (r : ℚ) :
    s.ratioEx metric (.lit r) = s.ratioE metric r := by
  unfold Scores.ratioEx Scores.ratioE
  rw [rescaleEx_lit]

theorem ratioEx_val (s : Scores) (metric : Metric) (e : FExpr) :
    (s.ratioEx metric e).val = normTarget s metric e.val := by
  unfold Scores.ratioEx normaliseE normTarget evenFlips
  obtain ⟨sc, ec⟩ := s.cfg
  cases hi : metric.increasing <;> cases sc <;>
    simp [FExpr.val, rescaleEx_val]

theorem thresholdAtFlE_eq (fl : ℚ → ℚ) (ulp : Ulp) (s : Scores) (metric : Metric) (e : FExpr) :
    s.thresholdAtFlE fl ulp metric e .linear =
      invertIncreasingFl fl ulp (s.metricArray metric) ((s.ratioEx metric e).evalFl fl)
        (normLc s.cfg metric.increasing metric.ratioClass) .linear := by
  unfold Scores.thresholdAtFlE
  simp only [normalise_lc, normalise_method]
  split <;> rfl

theorem thresholdAtFlE_lit (fl : ℚ → ℚ) (ulp : Ulp) (s : Scores) (metric : Metric) (r : ℚ)
    (m : Method) : s.thresholdAtFlE fl ulp metric (.lit r) m = s.thresholdAtFl fl ulp metric r m := by
  unfold Scores.thresholdAtFlE Scores.thresholdAtFl
  rw [ratioEx_lit]

/-- **`threshold_at_<metric>` on a float-computed target.** The target `e` is evaluated in
floating point (`e.evalFl fl`), then rescaled, normalised, shifted, turned into an index target,
a weight and a convex combination, every step rounded; the result is within `interpEpsR` of the
exact model's threshold at the EXACT target `e.val`, under the three executable checks. -/
theorem thresholdAtE_fl_error {fl : ℚ → ℚ} {u : ℚ} (h : Fl fl u) (ulp : Ulp) (s : Scores)
    (metric : Metric) (e : FExpr) (hne : (s.metricArray metric).length ≠ 0)
    (hok : (s.ratioEx metric e).ok u = true)
    (hint : flInterior u (s.metricArray metric).length
      (normLc s.cfg metric.increasing metric.ratioClass) (normTarget s metric e.val)
      ((s.ratioEx metric e).err u) = true)
    (hcell : flSameCell u (s.metricArray metric)
      (normLc s.cfg metric.increasing metric.ratioClass) (normTarget s metric e.val)
      ((s.ratioEx metric e).err u) = true) :
    ∃ t, s.thresholdAt ulp metric e.val .linear = .ok t ∧
      |s.thresholdAtFlE fl ulp metric e .linear - t| ≤
        interpEpsR u (s.metricArray metric).length
          (normLc s.cfg metric.increasing metric.ratioClass) (normTarget s metric e.val)
          ((s.ratioEx metric e).err u)
          ((s.metricArray metric).getD (clampIdx (indexTarget (s.metricArray metric)
            (normTarget s metric e.val) (normLc s.cfg metric.increasing metric.ratioClass)).floor
            (s.metricArray metric).length) 0)
          ((s.metricArray metric).getD (clampIdx (ceilQ (indexTarget (s.metricArray metric)
            (normTarget s metric e.val) (normLc s.cfg metric.increasing metric.ratioClass)))
            (s.metricArray metric).length) 0) := by
  refine ⟨_, thresholdAt_eq ulp s metric e.val .linear hne, ?_⟩
  have hm : (if evenFlips s.cfg metric.increasing then Method.linear else Method.linear.reverse) =
      Method.linear := by split <;> rfl
  rw [hm, thresholdAtFlE_eq]
  have hdr := FExpr.evalFl_error h (s.ratioEx metric e) hok
  rw [ratioEx_val] at hdr
  exact threshold_fl_error_checked h ulp _ _ _ _ _ hdr hint hcell

/-- the same without the same-neighbours check, for a sorted score array -/
theorem thresholdAtE_fl_error_lip {fl : ℚ → ℚ} {u : ℚ} (h : Fl fl u) (ulp : Ulp) (s : Scores)
    (metric : Metric) (e : FExpr) (hne : (s.metricArray metric).length ≠ 0)
    (hs : (s.metricArray metric).Pairwise (· ≤ ·))
    (hok : (s.ratioEx metric e).ok u = true)
    (hint : flInterior u (s.metricArray metric).length
      (normLc s.cfg metric.increasing metric.ratioClass) (normTarget s metric e.val)
      ((s.ratioEx metric e).err u) = true) :
    ∃ t, s.thresholdAt ulp metric e.val .linear = .ok t ∧
      |s.thresholdAtFlE fl ulp metric e .linear - t| ≤
        interpEpsLip u (s.metricArray metric)
          (targetErr u (s.metricArray metric).length
            (normLc s.cfg metric.increasing metric.ratioClass) (normTarget s metric e.val)
            ((s.ratioEx metric e).err u)) := by
  refine ⟨_, thresholdAt_eq ulp s metric e.val .linear hne, ?_⟩
  have hm : (if evenFlips s.cfg metric.increasing then Method.linear else Method.linear.reverse) =
      Method.linear := by split <;> rfl
  rw [hm, thresholdAtFlE_eq]
  have hdr := FExpr.evalFl_error h (s.ratioEx metric e) hok
  rw [ratioEx_val] at hdr
  exact threshold_fl_error_lip h ulp _ hs hne _ _ _ _ hdr hint

/-- **The default support points of `roc`.** Entry `i` of the exact model's
`threshold_at_<metric>(np.linspace(0, 1, k))` (`thresholdAtArr` on `linspace01 k`, the list
`defaultPoints` concatenates) against the float computation on the float linspace entry
`fl (i * fl (1 / (k-1)))`. -/
theorem C15_linspace_fl_error {fl : ℚ → ℚ} {u : ℚ} (h : Fl fl u) (ulp : Ulp) (s : Scores)
    (metric : Metric) (k i : ℕ) (hi : i < k) (ts : List ℚ)
    (hts : s.thresholdAtArr ulp metric (linspace01 k) .linear = .ok ts)
    (hs : (s.metricArray metric).Pairwise (· ≤ ·))
    (hok : (s.ratioEx metric (linspaceE k i)).ok u = true)
    (hint : flInterior u (s.metricArray metric).length
      (normLc s.cfg metric.increasing metric.ratioClass) (normTarget s metric (linspaceE k i).val)
      ((s.ratioEx metric (linspaceE k i)).err u) = true) :
    |s.thresholdAtFlE fl ulp metric (linspaceE k i) .linear - ts.getD i 0| ≤
      interpEpsLip u (s.metricArray metric)
        (targetErr u (s.metricArray metric).length
          (normLc s.cfg metric.increasing metric.ratioClass)
          (normTarget s metric (linspaceE k i).val) ((s.ratioEx metric (linspaceE k i)).err u)) := by
  obtain ⟨hne, rfl⟩ := thresholdAtArr_ok ulp s metric _ ts .linear hts
  obtain ⟨t, ht, hb⟩ := thresholdAtE_fl_error_lip h ulp s metric (linspaceE k i) hne hs hok hint
  have hlen : (linspace01 k).length = k := by
    rw [← linspaceEs_val, List.length_map]
    simp [linspaceEs]
  have hget : (linspace01 k).getD i 0 = (linspaceE k i).val := by
    rw [← linspaceEs_val]
    simp [linspaceEs, List.getD_eq_getElem?_getD, hi]
  have : (List.map (fun r => thresholdAtRatio ulp s.cfg (s.metricArray metric)
      (s.rescale metric r) metric.increasing metric.ratioClass .linear) (linspace01 k)).getD i 0 = t := by
    have hi' : i < (linspace01 k).length := by rw [hlen]; exact hi
    unfold Scores.thresholdAt at ht
    rw [if_neg hne] at ht
    simp only [Except.ok.injEq] at ht
    rw [← ht, ← hget]
    simp [List.getD_eq_getElem?_getD, hi']
  rw [this]
  exact hb

/-- with `fl = id` the float version is the exact model -/
theorem thresholdAtFlE_id (ulp : Ulp) (s : Scores) (metric : Metric) (e : FExpr)
    (hne : (s.metricArray metric).length ≠ 0) :
    s.thresholdAt ulp metric e.val .linear = .ok (s.thresholdAtFlE id ulp metric e .linear) := by
  rw [thresholdAt_eq ulp s metric e.val .linear hne, thresholdAtFlE_eq, FExpr.evalFl_id, ratioEx_val,
    invertIncreasingFl_id]
  have hm : (if evenFlips s.cfg metric.increasing then Method.linear else Method.linear.reverse) =
      Method.linear := by split <;> rfl
  rw [hm]

/-! ### the hypotheses are jointly satisfiable -/

/-- a `linspace` entry that is NOT exact under the non-identity rounding `exFl`: `k = 4`, `i = 1`
(`1/3`), and its running error bound is about `2 u / 3` -/
example : (linspaceE 4 1).val = 1 / 3 ∧ (linspaceE 4 1).evalFl exFl ≠ 1 / 3 ∧
    (linspaceE 4 1).ok (1 / 2 ^ 53) = true ∧
    (linspaceE 4 1).err (1 / 2 ^ 53) < 3 * (1 / 2 ^ 53) * (1 / 3) := by
  refine ⟨?_, ?_, ?_, ?_⟩ <;> decide +kernel

/-- `thresholdAtE_fl_error` / `_lip` / `C15_linspace_fl_error`: an object with easy samples and a
non-default configuration, the FNR target `linspace(0, 1, 4)[1]`: all executable checks hold -/
example :
    let s : Scores := ⟨[1, 2, 4, 8], [0, 3], 3, 1, ⟨.neg, .pos⟩⟩
    (1 : ℕ) < 4 ∧ (s.metricArray .fnr).length ≠ 0 ∧ (s.metricArray .fnr).Pairwise (· ≤ ·) ∧
    (s.ratioEx .fnr (linspaceE 4 1)).ok (1 / 2 ^ 53) = true ∧
    flInterior (1 / 2 ^ 53) (s.metricArray .fnr).length
      (normLc s.cfg Metric.fnr.increasing Metric.fnr.ratioClass)
      (normTarget s .fnr (linspaceE 4 1).val)
      ((s.ratioEx .fnr (linspaceE 4 1)).err (1 / 2 ^ 53)) = true ∧
    flSameCell (1 / 2 ^ 53) (s.metricArray .fnr)
      (normLc s.cfg Metric.fnr.increasing Metric.fnr.ratioClass)
      (normTarget s .fnr (linspaceE 4 1).val)
      ((s.ratioEx .fnr (linspaceE 4 1)).err (1 / 2 ^ 53)) = true ∧
    (∃ ts, s.thresholdAtArr Ulp.half .fnr (linspace01 4) .linear = .ok ts) := by
  intro s
  refine ⟨by norm_num, ?_, ?_, ?_, ?_, ?_, ⟨_, rfl⟩⟩ <;> decide +kernel

end SA
