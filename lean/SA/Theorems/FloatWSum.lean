/-
C05, floating point: cells of a confusion matrix built from float weights
(`matrix[i][j] += weight` in input order) under the standard model `Fl fl u`.

* `cellSum_fl_error_pow`   `|cellSumFl fl ws - Σ w| ≤ ((1+u)^(k-1) - 1) Σ|w|` for a cell with `k` samples
* `wsumEpsPow_le_wsumEps`, **`cellSum_fl_error`**  the same with the executable `wsumEps`
* `accumulateFl_spec`      the float loop puts `cellSumFl` of the cell's weights (input order) into
                           every cell, and fails exactly when the exact loop fails
* **`C05_weighted_fl_error`**  every cell of the float matrix is within `wsumEps` of the exact
                           model's cell (`accumulate`, i.e. `weightOf`)
* `accumulateFl_id`        with `fl = id` the float loop is the exact loop
-/
import SA.Model.FloatWSum
import SA.Proofs.FloatSum
import SA.Theorems.C05
import SA.Theorems.FloatBounds

namespace SA

/-! ### one cell -/

theorem sumL_append_single (ws : List ℚ) (w : ℚ) : sumL (ws ++ [w]) = sumL ws + w := by
  rw [sumL_eq, sumL_eq]; simp

theorem sumAbsL_append_single (ws : List ℚ) (w : ℚ) : sumAbsL (ws ++ [w]) = sumAbsL ws + |w| := by
  rw [sumAbsL_eq, sumAbsL_eq]; simp

theorem abs_sumL_le (ws : List ℚ) : |sumL ws| ≤ sumAbsL ws := by
  induction ws with
  | nil => simp [sumL, sumAbsL]
  | cons w ws ih =>
    simp only [sumL, sumAbsL, fabs_eq_abs]
    have := abs_add_le w (sumL ws)
    linarith

/-- **One cell, exact growth factor.** `k` weights added left to right to a zero accumulator:
`k - 1` rounded additions. -/
theorem cellSum_fl_error_pow {fl : ℚ → ℚ} {u : ℚ} (h : Fl fl u) (ws : List ℚ) :
    |cellSumFl fl ws - sumL ws| ≤ wsumEpsPow u ws := by
  unfold wsumEpsPow cellSumFl
  induction ws using List.reverseRecOn with
  | nil => simp [sumL, sumAbsL, gamPow_zero]
  | append_singleton ws w ih =>
    rw [List.foldl_append, List.foldl_cons, List.foldl_nil, sumL_append_single,
      sumAbsL_append_single, List.length_append, List.length_singleton, Nat.add_sub_cancel]
    set acc := List.foldl (addFl fl) 0 ws
    have hu := h.u_nonneg
    have hA := sumAbsL_nonneg ws
    have hw := abs_nonneg w
    unfold addFl
    by_cases h0 : acc = 0
    · rw [if_pos h0]
      rw [h0] at ih
      have e : w - (sumL ws + w) = 0 - sumL ws := by ring
      rw [e]
      have g1 : gamPow u (ws.length - 1) ≤ gamPow u ws.length := gamPow_mono hu (Nat.sub_le _ _)
      have g0 := gamPow_nonneg hu (ws.length - 1)
      calc |0 - sumL ws| ≤ gamPow u (ws.length - 1) * sumAbsL ws := ih
        _ ≤ gamPow u ws.length * sumAbsL ws := mul_le_mul_of_nonneg_right g1 hA
        _ ≤ gamPow u ws.length * (sumAbsL ws + |w|) :=
            mul_le_mul_of_nonneg_left (by linarith) (gamPow_nonneg hu _)
    · rw [if_neg h0]
      -- the accumulator is non-zero: at least one weight has been added
      have hlen : 0 < ws.length := by
        rcases ws with _ | ⟨a, t⟩
        · exact absurd rfl h0
        · simp
      have hx : |w - w| ≤ 0 := by simp
      have hs := h.add_round ih hx
      rw [add_zero] at hs
      have hT : |sumL ws + w| ≤ sumAbsL ws + |w| := by
        have := abs_add_le (sumL ws) w
        have := abs_sumL_le ws
        linarith
      have hk : ws.length = (ws.length - 1) + 1 := by omega
      have hgs := gamPow_succ u (ws.length - 1)
      rw [← hk] at hgs
      rw [hgs]
      set g := gamPow u (ws.length - 1)
      have hg : 0 ≤ g := gamPow_nonneg hu _
      have : u * |sumL ws + w| ≤ u * (sumAbsL ws + |w|) := mul_le_mul_of_nonneg_left hT hu
      have key : ((1 + u) * g + u) * (sumAbsL ws + |w|) =
          g * sumAbsL ws + u * ((sumAbsL ws + |w|) + g * sumAbsL ws) + (1 + u) * g * |w| := by ring
      have : 0 ≤ (1 + u) * g * |w| := by positivity
      linarith

/-- the proved bound is at most the executable one (for `(k-1) u < 1`) -/
theorem wsumEpsPow_le_wsumEps {u : ℚ} (hu : 0 ≤ u) (ws : List ℚ)
    (hk : ((ws.length - 1 : ℕ) : ℚ) * u < 1) : wsumEpsPow u ws ≤ wsumEps u ws :=
  mul_le_mul_of_nonneg_right (gamPow_le_gamK hu _ hk) (sumAbsL_nonneg ws)

/-- **`cellSum_fl_error`.** A cell with `k` samples, weights added in input order:
`|cell~ - Σ w| ≤ ((k-1) u / (1 - (k-1) u)) Σ|w|`. -/
theorem cellSum_fl_error {fl : ℚ → ℚ} {u : ℚ} (h : Fl fl u) (ws : List ℚ)
    (hk : ((ws.length - 1 : ℕ) : ℚ) * u < 1) : |cellSumFl fl ws - sumL ws| ≤ wsumEps u ws :=
  le_trans (cellSum_fl_error_pow h ws) (wsumEpsPow_le_wsumEps h.u_nonneg ws hk)

/-! ### the whole matrix -/

/-- the exact content of a cell is the sum of the cell's weights -/
theorem weightOf_eq_sumL (samples : List Sample) (l p : ℕ) :
    Spec.C05.weightOf samples l p = sumL (cellWeights samples l p) := by
  induction samples with
  | nil => rfl
  | cons s r ih =>
    unfold cellWeights at ih ⊢
    simp only [Spec.C05.weightOf, List.filter_cons, ih]
    by_cases hc : s.label = l ∧ s.pred = p
    · simp [hc, sumL]
    · simp [hc]

/-- the float loop: every cell receives `cellSumFl`-style accumulation of its own weights, in
input order, on top of its initial content; it fails exactly when the exact loop fails -/
theorem accumulateFl_spec (fl : ℚ → ℚ) (classes : List ℕ) (hnd : classes.Nodup)
    (samples : List Sample) (hin : ∀ s ∈ samples, s.label ∈ classes ∧ s.pred ∈ classes) (M0 : Mat) :
    ∃ M, accumulateFl fl classes samples M0 = .ok M ∧
      ∀ i j, i < classes.length → j < classes.length →
        M i j = (cellWeights samples (classes.getD i 0) (classes.getD j 0)).foldl (addFl fl)
          (M0 i j) := by
  induction samples generalizing M0 with
  | nil => exact ⟨M0, rfl, fun i j _ _ => by simp [cellWeights]⟩
  | cons s rest ih =>
    obtain ⟨hl, hp⟩ := hin s List.mem_cons_self
    obtain ⟨M, hM, hE⟩ := ih (fun s' hs' => hin s' (List.mem_cons_of_mem _ hs'))
      (addAtFl fl M0 (classes.idxOf s.label) (classes.idxOf s.pred) s.weight)
    refine ⟨M, ?_, fun i j hi hj => ?_⟩
    · simp only [accumulateFl, idxMap_nodup classes _ hnd hl, idxMap_nodup classes _ hnd hp, hM]
    · rw [hE i j hi hj]
      have e1 := idx_eq_iff classes hnd i hi s.label hl
      have e2 := idx_eq_iff classes hnd j hj s.pred hp
      unfold cellWeights
      by_cases hc : i = classes.idxOf s.label ∧ j = classes.idxOf s.pred
      · have hc' : s.label = classes.getD i 0 ∧ s.pred = classes.getD j 0 :=
          ⟨e1.mp hc.1, e2.mp hc.2⟩
        rw [List.filter_cons, if_pos (decide_eq_true hc'), List.map_cons, List.foldl_cons]
        simp only [addAtFl]
        rw [if_pos hc]
      · have hc' : ¬ (s.label = classes.getD i 0 ∧ s.pred = classes.getD j 0) :=
          fun hh => hc ⟨e1.mpr hh.1, e2.mpr hh.2⟩
        rw [List.filter_cons, if_neg (by rw [decide_eq_true_eq]; exact hc')]
        simp only [addAtFl]
        rw [if_neg hc]

/-- **`C05_weighted_fl_error`.** `ConfusionMatrix(labels, predictions, weights, classes)` with float
weights: the float loop returns a matrix (it fails exactly when the exact loop does), and every
cell is within `wsumEps` (`k` = number of samples of that cell) of the exact model's cell. -/
theorem C05_weighted_fl_error {fl : ℚ → ℚ} {u : ℚ} (h : Fl fl u) (classes : List ℕ)
    (hnd : classes.Nodup) (samples : List Sample)
    (hin : ∀ s ∈ samples, s.label ∈ classes ∧ s.pred ∈ classes)
    (hk : (samples.length : ℚ) * u < 1) :
    ∃ Mt M, accumulateFl fl classes samples Mat.zero = .ok Mt ∧
      accumulate classes samples Mat.zero = .ok M ∧
      ∀ i j, i < classes.length → j < classes.length →
        M i j = Spec.C05.weightOf samples (classes.getD i 0) (classes.getD j 0) ∧
        |Mt i j - M i j| ≤
          wsumEps u (cellWeights samples (classes.getD i 0) (classes.getD j 0)) := by
  obtain ⟨Mt, hMt, hEt⟩ := accumulateFl_spec fl classes hnd samples hin Mat.zero
  obtain ⟨M, hM, hE⟩ := accumulate_spec classes hnd samples hin Mat.zero
  refine ⟨Mt, M, hMt, hM, fun i j hi hj => ?_⟩
  have e1 : M i j = Spec.C05.weightOf samples (classes.getD i 0) (classes.getD j 0) := by
    rw [hE i j hi hj]; simp [Mat.zero]
  refine ⟨e1, ?_⟩
  rw [hEt i j hi hj, e1, weightOf_eq_sumL]
  have hlen : (cellWeights samples (classes.getD i 0) (classes.getD j 0)).length ≤ samples.length := by
    unfold cellWeights
    rw [List.length_map]
    exact List.length_filter_le _ _
  refine cellSum_fl_error h _ (lt_of_le_of_lt (mul_le_mul_of_nonneg_right ?_ h.u_nonneg) hk)
  exact_mod_cast (by omega : (cellWeights samples (classes.getD i 0) (classes.getD j 0)).length - 1 ≤
    samples.length)

/-- with `fl = id` the float loop is the exact loop -/
theorem accumulateFl_id (classes : List ℕ) (samples : List Sample) (M0 : Mat) :
    accumulateFl id classes samples M0 = accumulate classes samples M0 := by
  induction samples generalizing M0 with
  | nil => rfl
  | cons s rest ih =>
    simp only [accumulateFl, accumulate]
    cases idxMap classes s.label with
    | none => rfl
    | some i =>
      cases idxMap classes s.pred with
      | none => rfl
      | some j =>
        simp only []
        have : addAtFl id M0 i j s.weight = addAt M0 i j s.weight := by
          funext a b
          simp only [addAtFl, addAt, addFl, id]
          by_cases hc : a = i ∧ b = j
          · simp only [hc, and_self, if_true]
            split
            · rename_i h0; rw [h0, zero_add]
            · rfl
          · simp only [hc, if_false]
        rw [this, ih]

/-! ### the hypotheses are jointly satisfiable (non-identity rounding, concrete data) -/

/-- `cellSum_fl_error`: three weights that are not representable, the rounding `exFl`
(every rounded result moved up by the full relative amount): the float cell differs from the exact
sum, `(k-1) u < 1`, and the bound is `2u/(1-2u) * 3/5 ≈ 1.2 u` -/
example : Fl exFl (1 / 2 ^ 53) ∧
    (((([1 / 10, 1 / 5, 3 / 10] : List ℚ).length - 1 : ℕ) : ℚ)) * (1 / 2 ^ 53) < 1 ∧
    cellSumFl exFl [1 / 10, 1 / 5, 3 / 10] ≠ sumL [1 / 10, 1 / 5, 3 / 10] ∧
    wsumEps (1 / 2 ^ 53) [1 / 10, 1 / 5, 3 / 10] < 13 / 10 * (1 / 2 ^ 53) := by
  refine ⟨exFl_model, ?_, ?_, ?_⟩ <;> decide +kernel

/-- `C05_weighted_fl_error`: three classes in a non-sorted order, five weighted samples, two of them
in the same cell -/
example :
    let classes : List ℕ := [7, 3, 5]
    let samples : List Sample := [⟨7, 3, 1 / 10⟩, ⟨3, 3, 1 / 5⟩, ⟨7, 3, 3 / 10⟩, ⟨5, 7, 2 / 3⟩, ⟨7, 3, 1 / 7⟩]
    classes.Nodup ∧ (∀ s ∈ samples, s.label ∈ classes ∧ s.pred ∈ classes) ∧
      (samples.length : ℚ) * (1 / 2 ^ 53) < 1 ∧
      cellWeights samples 7 3 = [1 / 10, 3 / 10, 1 / 7] := by
  intro classes samples
  refine ⟨by decide, by decide, by decide +kernel, by decide +kernel⟩

end SA
