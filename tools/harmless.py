#!/usr/bin/env python3
"""tools/harmless.py [name ...] — apply each behaviour-preserving rewrite under harmless/<name>/patch.diff to a scratch
worktree of /repo (outside /repo and /verif; the checks read it through SA_REPO),
run the test suite and EVERY quick check, remove the worktree, and record the outcome in harmless/<name>/meta.json.
A VIOLATION here is a false alarm of the machinery (or, with no-failing-input-found, a broken correspondence that the
interface allows but that we want to know about)."""
import json, os, subprocess, sys, time
from concurrent.futures import ThreadPoolExecutor
from pathlib import Path
VERIF = Path(__file__).resolve().parent.parent
REPO = Path("/repo")

def sh(cmd, cwd=None):
    p = subprocess.run(cmd, shell=True, cwd=cwd, capture_output=True, text=True)
    return p.returncode, p.stdout + p.stderr

JOBS = int(os.environ.get("J", "6"))   # quick checks of one rewrite run J at a time
names = sys.argv[1:] or sorted(d.name for d in (VERIF / "harmless").iterdir() if (d / "patch.diff").exists())
ids = [c["property_id"] for c in json.load(open(VERIF / "MANIFEST.json"))["checks"]]
for name in names:
    d = VERIF / "harmless" / name
    wt = Path(f"/tmp/harmless_{name}")
    sh(f"git -C {REPO} worktree remove --force {wt}")
    rc, out = sh(f"git -C {REPO} worktree add -q --detach {wt} HEAD"); assert rc == 0, out
    rc, out = sh(f"git apply {d/'patch.diff'}", cwd=wt)
    if rc != 0:
        sh(f"git -C {REPO} worktree remove --force {wt}")
        print(name, "PATCH DOES NOT APPLY:", out.strip()[:200])
        continue
    res = {}
    try:
        rc, out = sh("/venv/bin/python -m pytest -q -p no:cacheprovider tests 2>&1 | tail -1", cwd=wt)
        suite = out.strip()
        def one(pid):
            rc, out = sh(f"SA_REPO={wt} ./check {pid} --tier quick", cwd=VERIF)
            v = [l for l in out.splitlines() if l.startswith("VIOLATION")]
            first = [l[:300] for l in out.splitlines() if l.startswith(("PROPFAIL", "DISAGREE", "ERR", "LEAN-GATE", "HARNESS"))][:2]
            return pid, ("ok" if rc == 0 else ("VIOLATION no-failing-input-found" if v and "no-failing-input-found" in v[0]
                                              else "VIOLATION" if v else f"exit {rc}")), first
        with ThreadPoolExecutor(JOBS) as ex:
            for pid, r, first in ex.map(one, ids):
                res[pid] = r
                if r != "ok":
                    print("   ", name, pid, r, first, flush=True)
    finally:
        sh(f"git -C {REPO} worktree remove --force {wt}")
    meta = {"suite": suite, "checks": res, "at": time.strftime("%Y-%m-%dT%H:%M:%SZ", time.gmtime())}
    (d / "meta.json").write_text(json.dumps(meta, indent=1))
    bad = {k: v for k, v in res.items() if v != "ok"}
    print(name, suite, "ALL OK" if not bad else bad)
