#!/usr/bin/env python3
"""tools/import_seed.py <ID> [k ...] — copy /tmp/seed_<ID>/out/<k>/ into seeded/<ID>_<k>/ with a meta.json skeleton (default k = 1 2)"""
import json, shutil, sys
from pathlib import Path
pid = sys.argv[1]
for k in (sys.argv[2:] or ["1", "2"]):
    src = Path(f"/tmp/seed_{pid}/out/{k}")
    if not (src / "patch.diff").exists() or (src / "patch.diff").stat().st_size == 0:
        print("missing", src); continue
    dst = Path(f"/verif/seeded/{pid}_{k}")
    dst.mkdir(parents=True, exist_ok=True)
    shutil.copy(src / "patch.diff", dst / "patch.diff")
    shutil.copy(src / "demo.py", dst / "demo.py")
    note = (src / "note.txt").read_text() if (src / "note.txt").exists() else ""
    meta = {"property": pid, "origin": "written by an independent sub-agent given only the property text and a scratch worktree of /repo",
            "what": note.strip()[:1500], "needs": ""}
    # first line mentioning 'need' as the short form
    for ln in note.splitlines():
        if "need" in ln.lower() or "manifest" in ln.lower():
            meta["needs"] = ln.strip()[:300]; break
    (dst / "meta.json").write_text(json.dumps(meta, indent=1))
    print("imported", dst)
