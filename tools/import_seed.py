#!/usr/bin/env python3
"""tools/import_seed.py <ID> <srcdir> <k_from>:<k_to> ["needs text"]
copy <srcdir>/{patch.diff,demo.py,notes.md|note.txt} into seeded/<ID>_<k_to>/ with a meta.json skeleton.
Example: tools/import_seed.py C13 /tmp/seedgen3_C13/seed_out/change1 5 "bc/bca with NaN replicates ..."
"""
import json, shutil, sys
from pathlib import Path

pid, src, k = sys.argv[1], Path(sys.argv[2]), sys.argv[3]
needs = sys.argv[4] if len(sys.argv) > 4 else ""
if not (src / "patch.diff").exists() or (src / "patch.diff").stat().st_size == 0:
    sys.exit(f"missing {src}/patch.diff")
dst = Path(__file__).resolve().parent.parent / "seeded" / f"{pid}_{k}"
dst.mkdir(parents=True, exist_ok=True)
shutil.copy(src / "patch.diff", dst / "patch.diff")
shutil.copy(src / "demo.py", dst / "demo.py")
note = ""
for nm in ("notes.md", "note.txt"):
    if (src / nm).exists():
        note = (src / nm).read_text()
meta = {"property": pid,
        "origin": "written by an independent sub-agent given only the property text and a scratch worktree of /repo",
        "what": note.strip()[:1500], "needs": needs}
if not needs:
    for ln in note.splitlines():
        if "need" in ln.lower() or "manifest" in ln.lower():
            meta["needs"] = ln.strip()[:300]
            break
meta["what_was_run"] = ("tools/seeded.py verify <name>: scratch worktree of /repo outside /repo and /verif; demo.py on the clean "
                        "tree (exit 0), git apply patch.diff, full pytest suite (384 passed), demo.py (exit 1); worktree removed. "
                        "tools/seeded.py run <name>: scratch worktree with the patch applied, SA_REPO=<worktree> ./check <property> "
                        "--tier quick, worktree removed.")
(dst / "meta.json").write_text(json.dumps(meta, indent=1))
print("imported", dst)
