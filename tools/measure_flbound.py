#!/usr/bin/env python3
"""Measures how close the implementation comes to the theorem-derived floating-point bounds
(lean/SA/Theorems/FloatBounds.lean), exactly (Fractions), on the generators of C02/C03 and C17.

    /venv/bin/python tools/measure_flbound.py thr  <cases> <seed,seed,...> [bh]   # threshold_at_* (linear); bh = C03 generator
    /venv/bin/python tools/measure_flbound.py pl   <cases> <seed,seed,...>        # utils.invert_pl_function

For every interior target the ratio |impl - exact model| / bound is computed with
  same   bound = interpEpsR   (SA.thresholdAt_fl_error: both sides interpolate between the same neighbours)
  lip    bound = interpEpsLip (SA.thresholdAt_fl_error_lip: sorted array, any cell; grid targets k/N land here)
  plain  bound = interpEps    (exact ratio, no shift: WITHOUT the rescaling / normalisation / shift roundings; shows why
                               those steps had to be part of the theorem - this ratio exceeds 4 on the unchanged code)
  pl     bound = plEps        (SA.segPoint_fl_error)
SA_REPO is honoured (default /repo).  Results of the runs behind DESIGN 4.2 (unchanged /repo): same 0.54, lip 0.52,
plain 13.1, pl 0.74.
"""
import sys
from fractions import Fraction
from pathlib import Path

ROOT = Path(__file__).resolve().parent.parent
sys.path.insert(0, str(ROOT / "harness"))
sys.path.insert(0, str(ROOT / "harness" / "props"))
import common  # noqa: E402
import thr_common  # noqa: E402

common.import_repo()
import numpy as np  # noqa: E402
from common import q, ql, line  # noqa: E402

U = thr_common.U53


def _ratio(d, b):
    return float(d / b) if b > 0 else (0.0 if d == 0 else float("inf"))


def run_thr(seed, n, boundary_heavy):
    from score_analysis import Scores
    pid = "C03" if boundary_heavy else "C02"
    lines, metas = [], []
    for i in range(n):
        rng = common.rng_for(seed, pid, i)
        inp = thr_common.gen_thr_input(rng, i, boundary_heavy)
        pos, neg = thr_common.expand_scores(inp["pos"]), thr_common.expand_scores(inp["neg"])
        rs = [float(common.unjson_num(x)) for x in inp["rs"]]
        dt = int if inp.get("intdt") else np.float32 if inp.get("f4dt") else float
        s = Scores(np.array(pos, dtype=dt), np.array(neg, dtype=dt), nb_easy_pos=inp["ep"], nb_easy_neg=inp["en"],
                   score_class=inp["sc"], equal_class=inp["ec"])
        res = common.call(getattr(s, "threshold_at_" + inp["metric"]), np.array(rs), method="linear")
        if res[0] != "ok":
            continue
        tl = [float(x) for x in np.asarray(res[1]).reshape(-1)]
        lines.append(line("flbound", pos=ql(pos), neg=ql(neg), ep=inp["ep"], en=inp["en"], sc=inp["sc"], ec=inp["ec"],
                          sorted=0, metric=inp["metric"], rs=ql(rs), u=q(U)))
        metas.append((i, inp, rs, tl))
    stats = {"same": [], "lip": [], "plain": []}
    for (i, inp, rs, tl), o in zip(metas, common.run_driver(lines)):
        if "ERR" in o:
            print("driver error", o)
            continue
        ok, interior, same = common.plist(o["ok"]), common.plist(o["interior"]), common.plist(o["same"])
        eps, epslip, eps0, t = (common.pfracs(o[k]) for k in ("eps", "epslip", "eps0", "t"))
        for k in range(len(rs)):
            if ok[k] != "1" or interior[k] != "1" or not thr_common.fl_in_range([rs[k]]):
                continue
            d = abs(Fraction(tl[k]) - t[k])
            info = (seed, i, inp["metric"], rs[k], tl[k], float(t[k]), inp["ep"], inp["en"])
            if same[k] == "1":
                stats["same"].append((_ratio(d, eps[k]),) + info)
                stats["plain"].append((_ratio(d, eps0[k]),) + info)
            else:
                stats["lip"].append((_ratio(d, epslip[k]),) + info)
    return stats


def run_pl(seed, n):
    import c17
    from score_analysis import utils
    lines, metas = [], []
    for i in range(n):
        if i % 4 == 3:
            continue
        inp = c17.gen_one(common.rng_for(seed, "C17", i), i, "quick")
        x, y, ts = inp["x"], inp["y"], inp["ts"]
        if not x:
            continue
        npdt = int if inp["dtype"] == "int" else float
        r = common.call(utils.invert_pl_function, np.array(x, dtype=npdt), np.array(y, dtype=npdt), np.array(ts, dtype=npdt))
        if r[0] != "ok":
            continue
        obs = [[float(v) for v in np.asarray(e).reshape(-1)] for e in r[1]]
        lines.append(line("plbound", x=ql(x), y=ql(y), ts=ql(ts), u=q(U)))
        metas.append((i, inp, obs))
    rows = []
    for (i, inp, obs), o in zip(metas, common.run_driver(lines)):
        if "err" in o or "ERR" in o:
            continue
        flat, eps, lens = common.pfracs(o["res"]), common.pfracs(o["eps"]), common.pints(o["mlens"])
        pos = 0
        for k, m in enumerate(lens):
            mz, me = flat[pos:pos + m], eps[pos:pos + m]
            pos += m
            if len(obs[k]) != m:
                if m > 1 or len(obs[k]) > 1:
                    print("COUNT differs", seed, i, k, obs[k], [float(v) for v in mz])
                continue
            for a, b, e in zip(obs[k], mz, me):
                if e > 0:
                    rows.append((_ratio(abs(Fraction(a) - b), e), seed, i, inp["xk"], inp["yk"], inp["dtype"], a, float(b)))
    return {"pl": rows}


def main():
    kind, n = sys.argv[1], int(sys.argv[2])
    seeds = [int(x) for x in sys.argv[3].split(",")]
    bh = len(sys.argv) > 4 and sys.argv[4] == "bh"
    total = {}
    for sd in seeds:
        st = run_thr(sd, n, bh) if kind == "thr" else run_pl(sd, n)
        for k, v in st.items():
            total.setdefault(k, []).extend(v)
        print("seed", sd, {k: (len(v), max([x[0] for x in v] or [0.0])) for k, v in st.items()}, flush=True)
    for k, v in total.items():
        v.sort(reverse=True)
        nz = sorted(x[0] for x in v if x[0] > 0)
        print(f"{k}: {len(v)} comparisons, max ratio {v[0][0] if v else 0:.4f}, median of non-zero "
              f"{nz[len(nz) // 2] if nz else 0:.4f}; worst:")
        for x in v[:5]:
            print("   ", x)


if __name__ == "__main__":
    main()
