#!/usr/bin/env python3
"""tools/regress_seeded.py [-j N] [name ...] — re-run the owning quick check against every seeded breaking change (each in its own
scratch worktree, N at a time) and list the ones that are no longer caught with a failing input."""
import json, subprocess, sys
from concurrent.futures import ThreadPoolExecutor
from pathlib import Path
VERIF = Path(__file__).resolve().parent.parent
args = sys.argv[1:]
j = 6
if args[:1] == ["-j"]:
    j = int(args[1]); args = args[2:]
names = args or sorted(d.name for d in (VERIF / "seeded").iterdir() if (d / "patch.diff").exists())

def one(n):
    p = subprocess.run([sys.executable, str(VERIF / "tools/seeded.py"), "run", n], capture_output=True, text=True)
    return n, (p.stdout + p.stderr).strip().splitlines()[-1][:260] if (p.stdout + p.stderr).strip() else "(no output)"

missed = []
with ThreadPoolExecutor(j) as ex:
    for n, line in ex.map(one, names):
        ok = " VIOLATION [" in line or (" VIOLATION" in line and "(no failing input)" not in line and "MISSED" not in line)
        print(("ok    " if ok else "MISS  ") + line, flush=True)
        if not ok:
            missed.append(n)
print(f"{len(names) - len(missed)}/{len(names)} caught with a failing input; not caught: {missed}")
