#!/usr/bin/env python3
"""
Manage the seeded breaking changes under /verif/seeded/<name>/ (patch.diff, demo.py, meta.json).

  tools/seeded.py verify <name>      confirm the change: suite passes with it, demo fails with it and
                                     passes without it (done in a scratch worktree outside /repo and /verif)
  tools/seeded.py run <name> [ids]   apply the patch to a scratch worktree of /repo, run the quick checks of the listed
                                     properties against it (SA_REPO; default: the property the change breaks), remove it
  tools/seeded.py table              print the detection table (markdown) from the meta.json files
"""
import json, os, subprocess, sys, shutil, time
from pathlib import Path

VERIF = Path(__file__).resolve().parent.parent
SEEDED = VERIF / "seeded"
REPO = Path("/repo")
PY = "/venv/bin/python"


def sh(cmd, cwd=None, timeout=1800):
    p = subprocess.run(cmd, shell=True, cwd=cwd, capture_output=True, text=True, timeout=timeout)
    return p.returncode, p.stdout + p.stderr


def verify(name):
    d = SEEDED / name
    meta = json.loads((d / "meta.json").read_text())
    wt = Path(f"/tmp/seedverify_{name}")
    sh(f"git -C {REPO} worktree remove --force {wt}")
    rc, out = sh(f"git -C {REPO} worktree add -q --detach {wt} HEAD")
    assert rc == 0, out
    try:
        shutil.copy(d / "demo.py", wt / "demo.py")
        rc0, o0 = sh(f"{PY} demo.py", cwd=wt)
        rc, out = sh(f"git apply {d/'patch.diff'}", cwd=wt)
        assert rc == 0, "patch does not apply: " + out
        rct, ot = sh(f"{PY} -m pytest -q -p no:cacheprovider tests 2>&1 | tail -3", cwd=wt)
        rc1, o1 = sh(f"{PY} demo.py", cwd=wt)
        meta["confirmed"] = {
            "demo_without_patch_exit": rc0, "demo_with_patch_exit": rc1,
            "suite_with_patch": ot.strip().splitlines()[-1] if ot.strip() else "",
            "demo_output_with_patch": o1.strip()[-300:],
            "ok": rc0 == 0 and rc1 != 0 and " passed" in ot and "failed" not in ot,
            "at": time.strftime("%Y-%m-%dT%H:%M:%SZ", time.gmtime()),
        }
    finally:
        sh(f"git -C {REPO} worktree remove --force {wt}")
    (d / "meta.json").write_text(json.dumps(meta, indent=1))
    print(name, "confirmed" if meta["confirmed"]["ok"] else "NOT CONFIRMED", meta["confirmed"])
    return meta["confirmed"]["ok"]


def run(name, ids=None):
    """apply the patch to a scratch worktree of /repo (outside /repo and /verif) and run the quick checks against it
    through SA_REPO, so /repo itself is never touched and concurrent runs are not disturbed"""
    d = SEEDED / name
    meta = json.loads((d / "meta.json").read_text())
    ids = ids or [meta["property"]]
    wt = Path(f"/tmp/seedrun_{name}")
    sh(f"git -C {REPO} worktree remove --force {wt}")
    rc, out = sh(f"git -C {REPO} worktree add -q --detach {wt} HEAD")
    assert rc == 0, out
    res = {}
    try:
        rc, out = sh(f"git apply {d/'patch.diff'}", cwd=wt)
        assert rc == 0, "patch does not apply: " + out
        for pid in ids:
            t0 = time.time()
            rc, out = sh(f"SA_REPO={wt} ./check {pid} --tier quick", cwd=VERIF)
            lines = [l for l in out.splitlines() if l.startswith(("VIOLATION", "PROPFAIL", "DISAGREE", "KNOWN", "LEAN-GATE", "HARNESS"))]
            viol = [l for l in lines if l.startswith("VIOLATION")]
            res[pid] = {"exit": rc, "violation": bool(viol),
                        "with_failing_input": bool(viol) and "no-failing-input-found" not in viol[0],
                        "first_lines": [l[:240] for l in lines[:3]], "wall_s": round(time.time() - t0, 1)}
    finally:
        sh(f"git -C {REPO} worktree remove --force {wt}")
    meta.setdefault("detected_by", {}).update(res)
    (d / "meta.json").write_text(json.dumps(meta, indent=1))
    for pid, r in res.items():
        print(name, pid, "VIOLATION" + ("" if r["with_failing_input"] else " (no failing input)") if r["violation"] else "MISSED", r["first_lines"][:1])
    return res


def table():
    rows = []
    for d in sorted(SEEDED.iterdir()):
        if not (d / "meta.json").exists():
            continue
        m = json.loads((d / "meta.json").read_text())
        det = m.get("detected_by", {})
        cell = ", ".join(f"{pid}: " + ("PROPFAIL" if r["with_failing_input"] else "VIOLATION (no input)" if r["violation"] else "missed")
                         for pid, r in det.items())
        rows.append(f"| {d.name} | {m['property']} | {m.get('needs','')[:110]} | {'yes' if m.get('confirmed',{}).get('ok') else 'no'} | {cell} |")
    print("| seeded change | breaks | needs in order to manifest | confirmed | quick checks |\n|---|---|---|---|---|")
    print("\n".join(rows))


if __name__ == "__main__":
    cmd = sys.argv[1]
    if cmd == "verify":
        sys.exit(0 if verify(sys.argv[2]) else 1)
    elif cmd == "run":
        run(sys.argv[2], sys.argv[3:] or None)
    elif cmd == "table":
        table()
