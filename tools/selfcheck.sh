#!/bin/bash
# tools/selfcheck.sh [tier] [seeds...] — run every claimed check with several seeds on the current tree
cd "$(dirname "$0")/.."
tier=${1:-quick}; shift
seeds=${@:-0 1 2}
ids=$(python3 -c "import json; print(' '.join(c['property_id'] for c in json.load(open('MANIFEST.json'))['checks']))")
for s in $seeds; do for id in $ids; do
  out=$(VERIF_SEED=$s ./check $id --tier $tier 2>&1); rc=$?
  echo "seed=$s rc=$rc $(echo "$out" | tail -1)"
  if [ $rc -ne 0 ]; then echo "$out" | grep -E "VIOLATION|PROPFAIL|DISAGREE|HARNESS|LEAN-GATE" | head -5; fi
done; done
