#!/usr/bin/env python3
"""Regenerates MANIFEST.json from harness/manifest_data.py (kept valid at all times)."""
import json, sys
sys.path.insert(0, "harness")
from manifest_data import CHECKS, NOT_APPLICABLE, NOTES
m = {
 "version": 1,
 "setup_cmd": "cd lean && lake build",
 "hooks": {
  "guard": "SCORE_ANALYSIS_VERIF",
  "enable": "no source hooks: the harness imports /repo in-process (sys.path[0]=$SA_REPO, default /repo) and observes it through the public API plus test-side wrapping (unittest.mock) of np.random / scipy.stats functions; the guard variable is set by the harness but read by nothing in /repo",
  "baseline_off_cmd": "cd /repo && /venv/bin/python -m pytest -ra -q -p no:cacheprovider --timeout=900 --continue-on-collection-errors",
  "source_commits": [],
  "add_only": True
 },
 "engines": [
  {"name": "lean-model", "path": "lean/", "serves_properties": [c["property_id"] for c in CHECKS],
   "kind_free_text": "Lean 4 model (SA/Model), executable spec predicates (SA/Spec), theorems (SA/Theorems, SA/Proofs), compiled line-protocol driver (Driver.lean)"},
  {"name": "correspondence-harness", "path": "harness/", "serves_properties": [c["property_id"] for c in CHECKS],
   "kind_free_text": "Python: runs /repo's implementation and the Lean driver on the same generated inputs, evaluates the Lean spec predicates on the implementation's outputs, searches/shrinks failing inputs, writes evidence"}
 ],
 "checks": CHECKS,
 "not_applicable": NOT_APPLICABLE,
 "notes": NOTES,
}
json.dump(m, open("MANIFEST.json", "w"), indent=1)
import jsonschema
jsonschema.validate(m, json.load(open("/root/.vp/MANIFEST.schema.json")))
print("MANIFEST.json written and valid:", len(CHECKS), "checks,", len(NOT_APPLICABLE), "not_applicable")
